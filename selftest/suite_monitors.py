"""
pytest plugin: runs the repository's own suite with the always-on recording monitors switched on
(DESIGN.md 3.7 #3).  Anything recorded is either a too-strict monitor or a defect the tests do not assert.

    cd /repo && PYTHONPATH=/repo:/verif:/verif/selftest /venv/bin/python -m pytest -q -p no:cacheprovider -p suite_monitors tests
"""
import sys

sys.path.insert(0, "/verif")

FINDINGS = []
COUNTS = {"dump": 0, "load": 0, "check_for_errors": 0, "config_writes": 0, "dispatch": 0}


def pytest_configure(config):
    import jsonrpclib.jsonclass as jc
    import jsonrpclib.jsonrpc as jr
    import jsonrpclib.config as cm
    import jsonrpclib.SimpleJSONRPCServer as S
    from vf import gen, guards, oracle

    real_dump, real_load = jc.dump, jc.load

    def snap(x):
        try:
            return gen.trepr(x)
        except Exception:
            return None

    def dump(obj, *a, **k):
        COUNTS["dump"] += 1
        before = snap(obj) if isinstance(obj, (list, dict, tuple, set, frozenset)) else None
        try:
            return real_dump(obj, *a, **k)
        finally:
            if before is not None and snap(obj) != before:
                FINDINGS.append(("C15 dump modified its argument", before[:200]))

    def load(obj, *a, **k):
        COUNTS["load"] += 1
        before = snap(obj) if isinstance(obj, (list, dict)) else None
        try:
            return real_load(obj, *a, **k)
        finally:
            if before is not None and snap(obj) != before:
                FINDINGS.append(("C15 load modified its argument", before[:200]))
    jc.dump, jc.load = dump, load

    real_cfe = jr.check_for_errors

    def check_for_errors(result):
        COUNTS["check_for_errors"] += 1
        try:
            return real_cfe(result)
        except jr.ProtocolError:
            raise
        except (TypeError, NotImplementedError, ValueError) as ex:
            if isinstance(result, dict) and result.get("error"):
                FINDINGS.append(("C06 error reply raised %s" % type(ex).__name__, repr(result)[:200]))
            raise
    jr.check_for_errors = check_for_errors

    trap = guards.ConfigTrap()
    trap.install()
    trap.watch(cm.DEFAULT, "DEFAULT")
    config._vf_trap = trap
    config._vf_default_before = guards.config_snapshot(cm.DEFAULT)

    real_md = S.SimpleJSONRPCDispatcher._marshaled_dispatch

    def _marshaled_dispatch(self, data, dispatch_method=None, path=None):
        COUNTS["dispatch"] += 1
        out = real_md(self, data, dispatch_method, path)
        wf, _ = oracle.wellformed_output(out)
        if wf and oracle.parse_body(data)[0] != "outside":
            FINDINGS.append(("C02 reply not well-formed: " + wf, repr(data)[:150]))
        return out
    S.SimpleJSONRPCDispatcher._marshaled_dispatch = _marshaled_dispatch


def pytest_unconfigure(config):
    import jsonrpclib.config as cm
    from vf import guards
    writes = config._vf_trap.take()
    COUNTS["config_writes"] = len(writes)
    diff = guards.snapshot_diff(config._vf_default_before, guards.config_snapshot(cm.DEFAULT))
    print("\n[vf suite monitors] evaluations:", COUNTS)
    print("[vf suite monitors] writes to config.DEFAULT during the suite:", writes[:10])
    print("[vf suite monitors] config.DEFAULT fields changed by the end of the suite:", diff)
    print("[vf suite monitors] findings:", len(FINDINGS))
    for f in FINDINGS[:20]:
        print("   ", f)
