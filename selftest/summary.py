#!/venv/bin/python -B
"""Prints the sensitivity tables (markdown) from selftest/results-*.json and seeded/*/notes.md."""
import json
import os
import sys

VERIF = os.path.dirname(os.path.dirname(os.path.abspath(__file__)))


def table(path, title, describe):
    if not os.path.exists(path):
        return
    res = json.load(open(path))
    print("### %s (%d changes)\n" % (title, len(res)))
    print("| change | property | what it does | verdict of the property's own check (quick tier) | caught by |")
    print("|---|---|---|---|---|")
    caught = missed = 0
    for sid in sorted(res):
        e = res[sid]
        own = e.get("checks", {}).get(e["property"], [])
        keys = sorted(set(k for r in own for k in r.get("keys", [])))[:3]
        runs = "%d/%d runs" % (sum(1 for r in own if r["exit"] == 1), len(own)) if len(own) > 1 else ""
        if e.get("control"):
            verdict = "control: silent (as expected)" if not e.get("caught") else "control: FIRED"
        elif e.get("caught"):
            verdict = "caught %s: %s" % (runs, ", ".join("`%s`" % k for k in keys))
            caught += 1
        else:
            verdict = "MISSED"
            missed += 1
        print("| %s | %s | %s | %s | %s |" % (sid, e["property"], describe(sid), verdict, " ".join(e.get("caught_by", []))))
    print("\ncaught %d, missed %d (controls not counted)\n" % (caught, missed))


def seeded_desc(sid):
    p = os.path.join(VERIF, "seeded", sid, "meta.json")
    try:
        meta = json.load(open(p))
    except Exception:
        return ""
    if meta.get("summary"):
        return meta["summary"]
    # first descriptive sentence of the author's notes
    try:
        lines = open(os.path.join(VERIF, "seeded", sid, "notes.md")).read().splitlines()
    except Exception:
        return "see seeded/%s/notes.md" % sid
    text = []
    for l in lines:
        l = l.strip()
        if not l or l.startswith(("#", "```", "|", "$")):
            if text:
                break
            continue
        text.append(l.lstrip("*- "))
        if len(" ".join(text)) > 170:
            break
    out = " ".join(text).replace("|", "/")
    return (out[:200] + "...") if len(out) > 200 else out


def mutant_desc(sid):
    p = os.path.join(VERIF, "selftest", "mutants", sid, "meta.json")
    try:
        return json.load(open(p)).get("what", "")
    except Exception:
        return ""


def compact():
    """Per-property counts (for DESIGN.md section 11)."""
    rows = {}
    for fname, col in (("results-seeded.json", "seeded"), ("results-mutants.json", "mutants")):
        path = os.path.join(VERIF, "selftest", fname)
        if not os.path.exists(path):
            continue
        for sid, e in json.load(open(path)).items():
            r = rows.setdefault(e["property"], {"seeded": [0, 0], "mutants": [0, 0], "controls": [0, 0], "missed": []})
            if e.get("control"):
                r["controls"][1] += 1
                r["controls"][0] += 0 if e.get("caught") else 1
            else:
                r[col][1] += 1
                if e.get("caught"):
                    r[col][0] += 1
                else:
                    r["missed"].append(sid)
    print("| property | independent changes caught | own mutants caught | controls silent | missed |")
    print("|---|---|---|---|---|")
    tot = {"seeded": [0, 0], "mutants": [0, 0], "controls": [0, 0]}
    for prop in sorted(rows):
        r = rows[prop]
        for k in tot:
            tot[k][0] += r[k][0]
            tot[k][1] += r[k][1]
        print("| %s | %d / %d | %d / %d | %d / %d | %s |" % (prop, r["seeded"][0], r["seeded"][1], r["mutants"][0],
                                                        r["mutants"][1], r["controls"][0], r["controls"][1],
                                                        " ".join(r["missed"]) or "-"))
    print("| **all** | **%d / %d** | **%d / %d** | **%d / %d** | |" % (tot["seeded"][0], tot["seeded"][1], tot["mutants"][0],
                                                                  tot["mutants"][1], tot["controls"][0], tot["controls"][1]))


if "--compact" in sys.argv:
    compact()
    sys.exit(0)
table(os.path.join(VERIF, "selftest", "results-seeded.json"), "Changes from independent sub-agents (`seeded/`)", seeded_desc)
table(os.path.join(VERIF, "selftest", "results-mutants.json"), "Own mutants (`selftest/mutants/`)", mutant_desc)
