#!/venv/bin/python -B
"""
Confirms a change proposed by an independent sub-agent and, if confirmed, keeps
it as /verif/seeded/<id>/ (patch.diff, demo.py, notes.md, meta.json).

    selftest/import_seeded.py <seed-id> <property> <out-dir>

Confirmation (all in a fresh scratch worktree of /repo HEAD, removed afterwards):
  1. patch.diff applies cleanly and touches only jsonrpclib/ files
  2. the package imports
  3. the repository's own suite gives the baseline result (62 passed, only test_cgi failing)
  4. demo.py exits 0 without the change and non-zero with it
"""

import json
import os
import shutil
import subprocess
import sys
import tempfile

VERIF = os.path.dirname(os.path.dirname(os.path.abspath(__file__)))
REPO = "/repo"
PY = "/venv/bin/python"


def sh(cmd, **kw):
    return subprocess.run(cmd, capture_output=True, text=True, **kw)


def main():
    sid, prop, out = sys.argv[1:4]
    benign = "--benign" in sys.argv   # a property-preserving refactoring: kept under /verif/benign as a control
    patch = os.path.join(out, "patch.diff")
    demo = os.path.join(out, "demo.py")
    scratch = tempfile.mkdtemp(prefix="vf-import-")
    copy = os.path.join(scratch, "repo")
    report = {"property": prop, "id": sid}
    ok = True
    try:
        sh(["git", "-C", REPO, "worktree", "add", "-q", "--detach", copy, "HEAD"])
        env = dict(os.environ, PYTHONPATH=copy)
        files = [l[6:] for l in open(patch).read().splitlines() if l.startswith("+++ b/")]
        report["files"] = files
        if not files or not all(f.startswith("jsonrpclib/") for f in files):
            report["error"] = "patch touches files outside jsonrpclib/: %s" % files
            ok = False
        d0 = sh([PY, "-B", demo], env=env, cwd=scratch, timeout=900)
        report["demo_exit_without_change"] = d0.returncode
        ap = sh(["git", "-C", copy, "apply", patch])
        if ap.returncode != 0:
            report["error"] = "patch does not apply: " + ap.stderr[:300]
            ok = False
        else:
            imp = sh([PY, "-B", "-c", "import jsonrpclib, jsonrpclib.SimpleJSONRPCServer, jsonrpclib.threadpool; print(jsonrpclib.__file__)"],
                     env=env, cwd=scratch)
            report["imports"] = imp.returncode == 0 and copy in imp.stdout
            t = sh([PY, "-m", "pytest", "-q", "-p", "no:cacheprovider", "--timeout=900", "tests"], cwd=copy, env=env)
            lines = t.stdout.strip().splitlines()
            report["tests"] = lines[-1] if lines else "?"
            failed = [l for l in lines if l.startswith("FAILED")]
            report["tests_failed"] = failed
            d1 = sh([PY, "-B", demo], env=env, cwd=scratch, timeout=900)
            report["demo_exit_with_change"] = d1.returncode
            report["demo_tail_with_change"] = (d1.stdout + d1.stderr)[-500:]
            ok = ok and report["imports"] and "62 passed" in report["tests"] and \
                failed == ["FAILED tests/test_cgi.py::CGIHandlerTests::test_server - TypeError: 'NoneType..."] or \
                (ok and report["imports"] and "62 passed" in report["tests"] and len(failed) == 1 and "test_cgi" in failed[0])
            ok = ok and d0.returncode == 0 and ((d1.returncode == 0) if benign else (d1.returncode != 0))
    finally:
        sh(["git", "-C", REPO, "worktree", "remove", "--force", copy])
        shutil.rmtree(scratch, ignore_errors=True)
    report["confirmed"] = bool(ok)
    print(json.dumps(report, indent=1))
    if ok:
        dest = os.path.join(VERIF, "benign" if benign else "seeded", sid)
        os.makedirs(dest, exist_ok=True)
        for f in ("patch.diff", "demo.py", "notes.md"):
            if os.path.exists(os.path.join(out, f)):
                shutil.copy(os.path.join(out, f), os.path.join(dest, f))
        head = sh(["git", "-C", REPO, "rev-parse", "--short", "HEAD"]).stdout.strip()
        meta = {"property": prop, "control": benign,
                "origin": "independent sub-agent given only the property text and a scratch worktree"
                          + (" (asked for a property-PRESERVING refactoring)" if benign else ""),
                "repo_head": head, "confirmed": {k: report[k] for k in ("tests", "demo_exit_without_change",
                                                                          "demo_exit_with_change", "files")},
                "what_it_needs_to_manifest": "see notes.md",
                "ran": ["git apply patch.diff (fresh worktree of /repo HEAD)", "pytest -q tests", "python demo.py (with / without)"]}
        with open(os.path.join(dest, "meta.json"), "w") as fh:
            json.dump(meta, fh, indent=1)
    return 0 if ok else 1


if __name__ == "__main__":
    sys.exit(main())
