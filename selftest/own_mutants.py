#!/venv/bin/python -B
"""
Own sensitivity mutants: realistic breaks per property, written as (file, old, new)
replacements against /repo HEAD and materialised as patches under
selftest/mutants/<name>/{patch.diff, meta.json}.   Usage: selftest/own_mutants.py
"""

import difflib
import json
import os
import shutil

REPO = "/repo"
HERE = os.path.dirname(os.path.abspath(__file__))
S = "jsonrpclib/SimpleJSONRPCServer.py"
J = "jsonrpclib/jsonrpc.py"
T = "jsonrpclib/threadpool.py"
K = "jsonrpclib/jsonclass.py"
C = "jsonrpclib/config.py"

MUTANTS = [
    # name, property, file, old, new, what
    ("c01-falsy-result-masked", "C01", J, '        return response["result"]\n\n    def _request_notify',
     '        return response["result"] or None\n\n    def _request_notify', "falsy results become None on the client"),
    ("c01-history-skips-empty-response", "C01", J,
     "        if self.__history is not None:\n            self.__history.add_response(response)\n",
     "        if self.__history is not None and response:\n            self.__history.add_response(response)\n",
     "History does not record the (empty) response of a notification"),
    ("c01-kwargs-as-list", "C01", S, "                if isinstance(params, (utils.ListType, utils.TupleType)):\n                    return func(*params)\n                else:\n                    return func(**params)",
     "                if isinstance(params, (utils.ListType, utils.TupleType)) or not params:\n                    return func(*params)\n                else:\n                    return func(**params)",
     "empty keyword map is splatted positionally (harmless) - control: expected NOT to break C01"),
    ("c02-parse-guard-narrowed", "C02", S, "            request = jsonrpclib.loads(data, self.json_config)\n        except Exception as ex:",
     "            request = jsonrpclib.loads(data, self.json_config)\n        except ValueError as ex:",
     "only ValueError is turned into -32700: translator failures (IndexError, TypeError...) escape"),
    ("c02-empty-batch-emits-array", "C02", S, "            if not responses:\n                # No non-None result",
     "            if responses is None:\n                # No non-None result", "a batch of notifications is answered with []"),
    ("c03-falsy-id-lost", "C03", S, '                response, rpcid=request["id"], is_response=True, config=config',
     '                response, rpcid=request["id"] or None, is_response=True, config=config',
     "ids 0 / false / '' ... are answered with null (and 0 raises: response without id)"),
    ("c03-batch-order-reversed", "C03", S, "                elif resp_entry is not None:\n                    responses.append(resp_entry)",
     "                elif resp_entry is not None:\n                    responses.insert(0, resp_entry)", "batch results in reverse order"),
    ("c03-invalid-entry-id-dropped", "C03", S, '            "Invalid request parameters or method.",\n            rpcid=_writable_id(rpcid),',
     '            "Invalid request parameters or method.",', "invalid entries lose their id"),
    ("c03-truthiness-notification-test", "C03", S, 'is_notification = "id" not in request or request["id"] in (None, "")',
     'is_notification = not request.get("id")', "requests with id 0 / false / [] are treated as notifications: never answered"),
    ("c04-pooled-notification-also-inline", "C04", S,
     "                self.__notification_pool.enqueue(\n                    self._dispatch, method, params, config\n                )\n\n            # Return immediately\n            return None",
     "                self.__notification_pool.enqueue(\n                    self._dispatch, method, params, config\n                )\n                self._dispatch(method, params, config)\n\n            # Return immediately\n            return None",
     "pooled notifications run twice"),
    ("c05-codes-swapped", "C05", S, '                    -32602, "Invalid parameters: {0}".format(ex), config=config',
     '                    -32601, "Invalid parameters: {0}".format(ex), config=config', "argument mismatch answered -32601"),
    ("c05-private-segments-reachable", "C05", S, "                        func = resolve_dotted_attribute(\n                            self.instance, method, True\n                        )",
     "                        func = self.instance\n                        for _seg in method.split(\".\"):\n                            func = getattr(func, _seg)",
     "underscore segments of a registered instance become callable"),
    ("c06-range-bound-off-by-one", "C06", J, "                and -32700 <= code <= -32000", "                and -32700 < code <= -32000",
     "-32700 raises AppError instead of plain ProtocolError"),
    ("c06-apperror-loses-data", "C06", J, '                data = result["error"].get("data", None)\n                raise AppError((code, message, data))',
     '                raise AppError((code, message, None))', "AppError.data() always None"),
    ("c07-protected-fields-skipped", "C07", K, "        fields.difference_update(ignore_list)",
     "        fields.difference_update(ignore_list)\n        fields = set(f for f in fields if not f.startswith(\"__\"))",
     "dunder-looking fields (e.g. __d__) are not dumped"),
    ("c07-classes-not-forwarded-in-dicts", "C07", K, "        return {key: load(value, classes) for key, value in obj.items()}",
     "        return {key: load(value) for key, value in obj.items()}", "local classes fail inside plain dicts (hence in every RPC)"),
    ("c11-worker-swallows-task-done", "C11", T, "                        # Mark the action as executed\n                        self._queue.task_done()\n",
     "                        # Mark the action as executed\n                        pass\n", "join() never returns after a task ran"),
    ("c09-future-stores-repr", "C09", T, "            self._done_event.set(result)", "            self._done_event.set(result if result is None or isinstance(result, (int, str)) else repr(result))",
     "the future does not yield the very object returned"),
    ("c09-enqueue-unlocked", "C09", T, "            with self.__lock:\n                self.__nb_pending_task += 1\n\n                if self.__nb_pending_task > self.__nb_threads:\n                    # All threads are taken: start a new one\n                    self.__start_thread()",
     "            self.__nb_pending_task += 1\n\n            if self.__nb_pending_task > self.__nb_threads:\n                # All threads are taken: start a new one\n                self.__start_thread()",
     "the accounting of enqueue is no longer done under the pool lock: pending counter races"),
    ("c10-enqueue-put-under-pool-lock-reverted", "C10", T, "        with self.__enqueue_lock:\n", "        with self.__lock:\n", "a producer blocked on a full bounded queue holds the pool lock again"),
    ("c10-max-not-enforced", "C10", T, "            if self.__nb_threads >= self._max_threads:\n                # Can't create more threads\n                return False",
     "            if self.__nb_threads > self._max_threads:\n                # Can't create more threads\n                return False", "one thread too many"),
    ("c10-retire-below-min", "C10", T, "                        self.__nb_threads > self._min_threads\n", "                        self.__nb_threads >= self._min_threads\n",
     "idle workers retire below min_threads"),
    ("c10-lazy-growth", "C10", T, "            if self.__nb_pending_task > self.__nb_threads:", "            if self.__nb_pending_task > self.__nb_threads + 1:",
     "a waiting task does not trigger a new worker: dependent tasks deadlock"),
    ("c10-retire-fix-reverted", "C10", T, "                        and self._queue.empty()\n", "", "the racy retirement is back"),
    ("c11-join-fix-reverted", "C11", T, "        if not self._queue.unfinished_tasks:", "        if self._queue.empty():", "join() true while a task runs"),
    ("c11-stop-without-sentinels", "C11", T, "        for _ in threads:\n            while any(thread.is_alive() for thread in threads):",
     "        for _ in threads[:0]:\n            while any(thread.is_alive() for thread in threads):",
     "stop() wakes nobody: it only ends when the idle timeouts expire (for ever with long / absent timeouts)"),
    ("c11-restart-keeps-stop-flag", "C11", T, "        # Clear the stop event\n        self._done_event.clear()\n", "        # Clear the stop event\n        if not self._threads:\n            self._done_event.clear()\n        self._threads = []\n",
     "control: equivalent restart logic"),
    ("c12-server_close-keeps-pool", "C12", S, "        self.__request_pool.join()\n        self.__request_pool.stop()", "        self.__request_pool.join()",
     "request pool workers survive server_close"),
    ("c12-server_close-drain-reverted", "C12", S, "        self.__request_pool.join()\n        self.__request_pool.stop()", "        self.__request_pool.stop()",
     "requests accepted and queued are dropped by server_close again"),
    ("c12-request-enqueued-twice", "C12", S, "        self.__request_pool.enqueue(\n            self.process_request_thread, request, client_address\n        )",
     "        self.__request_pool.enqueue(\n            self.process_request_thread, request, client_address\n        )\n        if self.__request_pool._queue.qsize() > 3:\n            self.__request_pool.enqueue(\n                self.process_request_thread, request, client_address\n            )",
     "under load a connection is handled twice"),
    ("c13-config-copy-dropped", "C13", S, "            config = self.json_config.copy()\n            config.version = 1.0", "            config = self.json_config\n            config.version = 1.0",
     "a 1.0 request turns the server into a 1.0 server"),
    ("c13-set-and-restore", "C13", S, "            config = self.json_config.copy()\n            config.version = 1.0",
     "            config = self.json_config.copy()\n            config.version = 1.0\n            self.json_config.user_agent = self.json_config.user_agent",
     "serving writes an attribute of the server Config (same value): only the write trap sees it"),
    ("c13-copy-shares-classes", "C13", C, "        new_config.classes = LocalClasses(self.classes)", "        new_config.classes = self.classes", "copy shares the classes table"),
    ("c13-copy-classes-plain-dict-reverted", "C13", C, "        new_config.classes = LocalClasses(self.classes)", "        new_config.classes = self.classes.copy()", "a copied Config loses classes.add() again"),
    ("c14-notification-keeps-null-id", "C14", J, "        if self.version >= 2:\n            del request[\"id\"]\n        else:", "        if self.version > 2:\n            del request[\"id\"]\n        else:",
     "2.0 notifications carry id null"),
    ("c14-params-always-emitted", "C14", J, "        if params or self.version < 1.1:", "        if params is not None or self.version < 1.1:", "2.0 requests carry empty params"),
    ("c14-error-data-none-emitted", "C14", J, "        if data is not None:\n            error[\"error\"][\"data\"] = data", "        error[\"error\"][\"data\"] = data", "data: null emitted"),
    ("c15-load-reorders-keys-reverted", "C15", K, "    for key, value in obj.items():\n        if key == \"__jsonclass__\":",
     "    obj[\"__jsonclass__\"] = obj.pop(\"__jsonclass__\")\n    for key, value in obj.items():\n        if key == \"__jsonclass__\":",
     "load moves the class information to the end of the caller's dict again"),
    ("c15-dump-keeps-tuples", "C15", K, "    elif isinstance(obj, utils.ITERABLE_TYPES):\n        # List, set or tuple\n        return [",
     "    elif isinstance(obj, utils.TupleType) and not obj:\n        return obj\n\n    elif isinstance(obj, utils.ITERABLE_TYPES):\n        # List, set or tuple\n        return [",
     "empty tuples are returned as tuples"),
    ("c16-notify-before-store", "C16", T, "        else:\n            # Store the result\n            self._done_event.set(result)\n        finally:\n            # In any case: notify the call back (if any)\n            self.__notify()",
     "        else:\n            # Store the result\n            self.__notify()\n            self._done_event.set(result)\n        finally:\n            # In any case: notify the call back (if any)\n            self.__notify()",
     "callback invoked with (None, None) before the result is stored"),
    ("c16-lock-reverted", "C16", T, "            self.__callback = None\n            self.__extra = None\n\n        if callback is not None:", "        if callback is not None:",
     "registration not consumed: double notification is back"),
    ("c16-callback-exception-escapes", "C16", T, "                    extra,\n                )\n            except Exception as ex:\n                self._logger.exception(\"Error calling back method: %s\", ex)",
     "                    extra,\n                )\n            except TypeError as ex:\n                self._logger.exception(\"Error calling back method: %s\", ex)", "non-TypeError callback exceptions escape execute"),
    ("c16-late-registration-through-the-slot-reverted", "C16", T, "            done = self._done_event.is_set()\n            if not done:\n                self.__callback = method\n                self.__extra = extra\n",
     "            done = False\n            self.__callback = method\n            self.__extra = extra\n", "registrations on a finished future share the single slot again"),
    ("c16-wait-raises-on-timeout-reverted", "C16", T, "        if result and self.__exception is not None:", "        if self.__exception is not None:", "result(timeout) delivers the exception before done() again"),
    ("c17-length-from-text", "C17", S, "        self.send_header(\"Content-length\", str(len(response)))", "        self.send_header(\"Content-length\", str(len(response.decode(\"utf-8\"))))",
     "server Content-Length counts characters"),
    ("c17-query-dropped-for-unix", "C17", J, "        if use_unix:\n            unix_path = self.__handler\n            self.__handler = \"/\"", "        if use_unix:\n            unix_path = self.__handler\n            self.__handler = \"/\"\n            self.__query_string = \"\"",
     "unix+http URLs lose their query string"),
    ("c17-any-scheme", "C17", J, "        if schema not in (\"http\", \"https\") or (use_unix and schema != \"http\"):", "        if not schema.startswith((\"http\", \"ws\")) or (use_unix and schema != \"http\"):", "ws:// accepted"),
    ("c17-unix-https-check-reverted", "C17", J, "        if schema not in (\"http\", \"https\") or (use_unix and schema != \"http\"):", "        if schema not in (\"http\", \"https\"):", "unix+https accepted again with a caller-supplied transport"),
    ("c03-late-conversion-check-reverted", "C03", S, "            jsonrpclib.jdumps(result, self.encoding)\n            return result", "            return result", "results refused by the encoder collapse the reply again"),
    ("c02-nonfinite-id-check-reverted", "C02", S, "    if not _is_finite(rpcid):", "    if False:", "ids beyond the double range echoed as Infinity again"),
    ("c02-nonfinite-id-check-top-level-only", "C02", S, "            to_check.extend(item)\n        elif isinstance(item, utils.DictType):\n            to_check.extend(item.values())", "            pass", "numerals beyond the double range nested in a structured id are echoed again"),
    ("c10-ctor-overflow-reverted", "C10", T, "        except OverflowError:\n            # Infinite value: clamp it like any other out-of-range value\n            min_threads = max_threads if min_threads > 0 else 0\n", "", "an infinite min_threads raises OverflowError again"),
    ("c10-error-report-guard-reverted", "C10", T, "                        except Exception:\n                            # The error can't even be reported (e.g. odd\n                            # callable object): the thread must go on\n                            pass\n", "                        finally:\n                            pass\n", "a failing dict-backed callable kills its worker again"),
    ("c05-noncallable-attribute-reverted", "C05", S, "                        if not callable(func):\n                            # A public attribute is not a method\n                            func = None\n", "                        pass\n", "data attributes answered -32602 again"),
    ("c01-self-keyword-reverted", "C01", J, "    def __call__(*args, **kwargs):\n        \"\"\"\n        Sends an RPC request and returns the unmarshalled result\n        \"\"\"\n        # \"self\" can be the name of a keyword argument of the remote method\n        self, args = args[0], args[1:]\n", "    def __call__(self, *args, **kwargs):\n        \"\"\"\n        Sends an RPC request and returns the unmarshalled result\n        \"\"\"\n", "proxy.f(self=1) raises TypeError again"),
    ("c07-alias-ignored-reverted", "C07", K, "            if local_class is clazz:\n                json_class = local_name\n                break\n", "            pass\n", "local classes registered under a custom name are dumped with their own name again"),
    ("c07-enum-nonscalar-fallback-reverted", "C07", K, "                if dump(member.value) == params[0]:", "                if False:", "enum members with tuple values cannot be loaded again"),
    ("c06-multicall-single-error-reverted", "C06", J, "        elif isinstance(responses, utils.DictType):\n            # The server answered the whole batch with a single object: this\n            # is the way errors concerning the batch itself are reported\n            check_for_errors(responses)\n", "", "MultiCall raises KeyError/TypeError for a whole-batch error object again"),
    ("c14-fault-forced-id-zero-reverted", "C14", J, "        if rpcid is None or rpcid == \"\":\n            # No forced ID (0 is a valid one): use the one of the fault.\n", "        if not rpcid:\n            # No forced ID: use the one of the fault.\n", "Fault.response(rpcid=0) answers id null again"),
    ("c07-string-slots-reverted", "C07", K, "        if isinstance(slots, utils.STRING_TYPES):\n            # A single slot can be declared with its name only\n            slots = (slots,)\n", "", "__slots__ = 'value' iterated by characters again"),
    ("c17-per-chunk-decode-reverted", "C17", S, "                chunks.append(raw_chunk)\n                size_remaining -= len(raw_chunk)\n\n            # Decode the whole body at once: a multi-byte character can be\n            # split between two chunks\n            data = utils.from_bytes(b\"\".join(chunks))",
     "                chunks.append(utils.from_bytes(raw_chunk))\n                size_remaining -= len(raw_chunk)\n            data = \"\".join(chunks)", "per-chunk decoding is back"),
    ("c18-oldest-wins", "C18", J, "        for headers in self.additional_headers:\n            for key, value in headers.items():", "        for headers in reversed(self.additional_headers):\n            for key, value in headers.items():",
     "oldest pushed value wins"),
    ("c18-readonly-filter-case", "C18", J, "        for forbidden in self.readonly_headers:\n            additional_headers.pop(forbidden, None)",
     "        for forbidden in self.readonly_headers:\n            additional_headers.pop(forbidden.title(), None)", "content-length can be overridden (duplicated)"),
    ("c18-finally-reverted", "C18", J, "        try:\n            yield self\n        finally:\n            # Restore the previous headers even if the block raised\n            self.__transport.pop_headers(headers)",
     "        yield self\n        self.__transport.pop_headers(headers)", "exceptional exit leaks headers"),
    ("c19-no-close-on-error", "C19", J, "            # a strange state, so we clear it.\n            self.close()\n            raise", "            # a strange state, so we clear it.\n            raise",
     "broken connection stays cached"),
    ("c19-no-drain", "C19", J, "        if response.getheader(\"content-length\", 0):\n            try:\n                response.read()\n            except Exception:\n                # The body has been cut short: the connection is not usable\n                # anymore, but the error to report is still the status\n                self.close()\n", "", "non-200 body left on the keep-alive connection: the NEXT call fails once (BadStatusLine), which the property allows (at most one further failing call) - control"),
    ("c19-drain-guard-reverted", "C19", J, "            try:\n                response.read()\n            except Exception:\n                # The body has been cut short: the connection is not usable\n                # anymore, but the error to report is still the status\n                self.close()\n", "            response.read()\n", "a cut error body raises IncompleteRead again"),
    ("c19-multicall-keeps-failed-jobs-reverted", "C19", J, "        jobs = self._job_list[:]\n        del self._job_list[:]\n", "        jobs = self._job_list[:]\n", "failed jobs are sent again with the next batch"),
    ("c20-multicall-default-config-reverted", "C20", J, "        self._config = config or getattr(\n            server, \"_config\", jsonrpclib.config.DEFAULT\n        )", "        self._config = config or jsonrpclib.config.DEFAULT", "MultiCall(proxy) uses the shared DEFAULT Config again"),
    ("c14-fault-data-translation-reverted", "C14", J, "        if data is not None and config.use_jsonclass:", "        if False:", "Fault data is emitted raw again"),
    ("c03-id-check-recursive-reverted", "C03", S, "            to_check.extend(item)\n        elif isinstance(item, utils.DictType):\n            to_check.extend(item.values())", "            if not all(_is_finite(sub) for sub in item):\n                return False\n        elif isinstance(item, utils.DictType):\n            if not all(_is_finite(sub) for sub in item.values()):\n                return False", "the id check recurses again: deep ids overflow the stack"),
    ("c14-forced-id-sticks-reverted", "C14", J, "            rpcid = self.rpcid\n\n        return dumps(\n            self,\n            methodresponse=True,\n            rpcid=rpcid,", "            rpcid = self.rpcid\n        self.rpcid = rpcid\n\n        return dumps(\n            self,\n            methodresponse=True,\n            rpcid=rpcid,", "a forced id is stored in the Fault object again"),
    ("c07-hidden-local-class-reverted", "C07", K, "        and getattr(module, json_class, None) is clazz\n", "", "registered local classes of importable modules are dumped by module path again"),
    ("c07-dotted-registered-name-reverted", "C07", K, "    if classes and json_module_clean in classes:\n        # Name of a local class (which can look like a module path)\n        json_class = classes[json_module_clean]\n    elif classes and len(json_module_parts) == 1:", "    if classes and len(json_module_parts) == 1:", "dotted registered names are imported as module paths again"),
    ("c07-enum-value-raw-reverted", "C07", K, "            [dump(obj.value, serialize_method, ignore_attribute, ignore, config)]", "            [obj.value]", "enum values are emitted raw again"),
    ("c20-empty-handler-table-detached-reverted", "C20", C, "        if serialize_handlers is None:\n            serialize_handlers = {}\n        self.serialize_handlers = serialize_handlers", "        self.serialize_handlers = serialize_handlers or {}", "an empty handler table given by the caller is replaced again"),
    ("c06-multicall-slice-reverted", "C06", J, "        if isinstance(i, slice):\n            return [self.__get_result(item) for item in self.results[i]]\n\n", "", "a slice of MultiCall results raises TypeError again"),
    ("c18-empty-ctor-headers-detached-reverted", "C18", J, "        self.__transport.push_headers({} if headers is None else headers)", "        self.__transport.push_headers(headers or {})", "an empty constructor headers dictionary is replaced again"),
    ("c05-tuple-params-reverted", "C05", S, "                if isinstance(params, (utils.ListType, utils.TupleType)):\n                    return func(*params)", "                if isinstance(params, utils.ListType):\n                    return func(*params)", "tuple params go through func(**params) again"),
    ("c04-tuple-params-reverted", "C04", S, "                if isinstance(params, (utils.ListType, utils.TupleType)):\n                    return func(*params)", "                if isinstance(params, utils.ListType):\n                    return func(*params)", "a notification with tuple params is never executed again"),
    ("c03-unwritable-id-reverted", "C03", S, "                rpcid=self.__writable_id(request[\"id\"]),", "                rpcid=request[\"id\"],", "the error about an unwritable id carries that id again"),
    ("c13-unwritable-id-reverted", "C13", S, "                rpcid=self.__writable_id(request[\"id\"]),", "                rpcid=request[\"id\"],", "the error about an unwritable id carries that id again (server-form fallback)"),
    ("c03-validate-unwritable-id-reverted", "C03", S, "            \"Invalid request parameters or method.\",\n            rpcid=_writable_id(rpcid),", "            \"Invalid request parameters or method.\",\n            rpcid=rpcid,", "validation errors carry an unwritable id again"),
    ("c17-cgi-byte-read-reverted", "C17", S, "            request_text = utils.from_bytes(reader.read(length))", "            request_text = sys.stdin.read(length)", "the CGI handler reads characters again"),
    ("c19-2xx-accepted", "C19", J, "            if response.status == 200:", "            if response.status < 300:", "201/202 replies parsed as results"),
    ("c20-ignore-not-propagated", "C20", K, "                attrs[attr_name] = dump(\n                    attr_value,\n                    serialize_method,\n                    ignore_attribute,\n                    ignore,\n                    config,\n                )",
     "                attrs[attr_name] = dump(\n                    attr_value,\n                    serialize_method,\n                    ignore_attribute,\n                    None,\n                    config,\n                )", "ignore argument not applied to nested beans"),
    ("c20-config-lost-in-lists", "C20", K, "            dump(item, serialize_method, ignore_attribute, ignore, config)\n            for item in obj",
     "            dump(item, serialize_method, ignore_attribute, ignore)\n            for item in obj", "handlers not consulted inside lists"),
    ("c20-hardcoded-serialize", "C20", K, "    if hasattr(obj, serialize_method):\n        # Params can be a dict (keyword) or list (positional)\n        # Attrs MUST be a dict.\n        serialize = getattr(obj, serialize_method)",
     "    if hasattr(obj, \"_serialize\"):\n        # Params can be a dict (keyword) or list (positional)\n        # Attrs MUST be a dict.\n        serialize = getattr(obj, \"_serialize\")", "configured method name ignored"),
    ("c08-regex-allows-dash", "C08", K, 'INVALID_MODULE_CHARS = r"[^a-zA-Z0-9\\_\\.]"', 'INVALID_MODULE_CHARS = r"[^a-zA-Z0-9\\_\\.\\-]"', "dash allowed"),
    ("c08-clean-then-import", "C08", K, "    if json_module_clean != orig_module_name:\n        raise TranslationError(", "    if not json_module_clean:\n        raise TranslationError(",
     "names are cleaned and imported instead of rejected"),
    ("c08-off-translates-responses", "C08", J, "    if config.use_jsonclass:\n        # Convert beans\n        data = jsonclass.load(data, config.classes)",
     "    if config.use_jsonclass or \"result\" in data:\n        # Convert beans\n        data = jsonclass.load(data, config.classes)", "responses are translated although the switch is off"),
    # --- reverts of later repairs: a repaired defect must be reported again if it ever returns
    ("c09-start-lock-reverted", "C09", T, "            with self.__lock:\n                self.__nb_pending_task += 1\n            self.__start_thread()",
     "            self.__nb_pending_task += 1\n            self.__start_thread()", "start() updates the pending counter outside the lock again"),
    ("c05-instance-dispatch-fallback-reverted", "C05", S, "                    instance_dispatch = getattr(self.instance, \"_dispatch\")\n",
     "                    return getattr(self.instance, \"_dispatch\")(method, params)\n",
     "an AttributeError raised through instance._dispatch falls back to a second call"),
    ("c16-execute-except-exception-reverted", "C16", T, "            result = method(*args, **kwargs)\n        except BaseException as ex:",
     "            result = method(*args, **kwargs)\n        except Exception as ex:", "futures of tasks raising SystemExit never complete"),
    ("c09-worker-except-exception-reverted", "C09", T, "                        future.execute(method, args, kwargs)\n                    except BaseException as ex:",
     "                        future.execute(method, args, kwargs)\n                    except Exception as ex:", "a task raising SystemExit ends its worker"),
    ("c10-thread-start-failure-not-rolled-back", "C10", T, "            except (RuntimeError, OSError):\n                self.__nb_threads -= 1\n",
     "            except (RuntimeError, OSError):\n                pass\n", "a refused thread creation leaves a phantom worker in the counter"),
    ("c12-server-close-guard-reverted", "C12", S, "        if serving:\n            # shutdown() waits for the end of the serving loop: it must only\n            # be called if there is such a loop, or it would block forever\n            SimpleJSONRPCServer.shutdown(self)",
     "        SimpleJSONRPCServer.shutdown(self)", "server_close() on a pooled server that never served blocks for ever again"),
]

# controls: changes that do NOT break the property (equivalent or unobservable with the stdlib JSON backend): a check
# that fires on one of these would be raising a false alarm
CONTROLS = {"c01-kwargs-as-list", "c11-restart-keeps-stop-flag", "c19-no-drain",
            "c12-request-enqueued-twice", "c17-length-from-text"}


def main():
    out = os.path.join(HERE, "mutants")
    shutil.rmtree(out, ignore_errors=True)
    os.makedirs(out)
    bad = []
    for name, prop, path, old, new, what in MUTANTS:
        src = open(os.path.join(REPO, path)).read()
        if src.count(old) != 1:
            bad.append((name, src.count(old)))
            continue
        mutated = src.replace(old, new)
        diff = "".join(difflib.unified_diff(src.splitlines(True), mutated.splitlines(True), "a/" + path, "b/" + path))
        d = os.path.join(out, name)
        os.makedirs(d)
        with open(os.path.join(d, "patch.diff"), "w") as fh:
            fh.write(diff)
        with open(os.path.join(d, "meta.json"), "w") as fh:
            json.dump({"property": prop, "what": what, "origin": "own mutant (DESIGN.md section 4)",
                       "control": name in CONTROLS}, fh, indent=1)
    print("written", len(MUTANTS) - len(bad), "mutants;", "not applicable:", bad)


if __name__ == "__main__":
    main()
