#!/venv/bin/python -B
"""
Sensitivity self-test: every seeded change under /verif/seeded/<id>/ is applied
to a scratch copy of /repo (outside /repo and /verif), the check of the property
it breaks is run against that copy (VERIF_REPO), and a VIOLATION is expected.

    selftest/run_seeded.py [--tier quick|thorough] [--tests] [--all-checks] [id ...]

--tests       also run the repository's own suite on the copy (must stay at baseline)
--all-checks  run every check against the copy (shows which checks catch which change)
Results are written to selftest/results.json (committed; informational).
"""

import argparse
import json
import os
import shutil
import subprocess
import sys
import tempfile
import time

VERIF = os.path.dirname(os.path.dirname(os.path.abspath(__file__)))
REPO = "/repo"
ALL = ["C%02d" % i for i in range(1, 21)]


RELATED = {
    "jsonrpclib/SimpleJSONRPCServer.py": ["C01", "C02", "C03", "C04", "C05", "C07", "C08", "C12", "C13", "C17", "C20"],
    "jsonrpclib/jsonrpc.py": ["C01", "C06", "C07", "C08", "C14", "C17", "C18", "C19", "C20"],
    "jsonrpclib/jsonclass.py": ["C01", "C02", "C07", "C08", "C14", "C15", "C20"],
    "jsonrpclib/threadpool.py": ["C04", "C09", "C10", "C11", "C12", "C16"],
    "jsonrpclib/config.py": ["C05", "C08", "C13", "C20"],
    "jsonrpclib/utils.py": ["C01", "C07", "C14", "C15", "C17"],
    "jsonrpclib/jsonlib.py": ["C01", "C02", "C14", "C17"],
    "jsonrpclib/history.py": ["C01"],
}


def run_check(prop, copy, tier, seed=0):
    env = dict(os.environ, VERIF_REPO=copy, VERIF_SEED=str(seed))
    t0 = time.time()
    p = subprocess.run([os.path.join(VERIF, "check"), prop, "--tier", tier, "--no-evidence"], env=env, cwd=VERIF,
                       capture_output=True, text=True, timeout=3600)
    keys = sorted(set(l.split("key=")[1].split(" x")[0] for l in p.stdout.splitlines()
                      if l.startswith("VIOLATION") and "key=" in l))
    return {"exit": p.returncode, "keys": keys[:12], "wall_s": round(time.time() - t0, 1),
            "inconclusive": [l[:200] for l in p.stdout.splitlines() if l.startswith("INCONCLUSIVE")][:3]}


def main():
    ap = argparse.ArgumentParser()
    ap.add_argument("ids", nargs="*")
    ap.add_argument("--tier", default="quick")
    ap.add_argument("--tests", action="store_true")
    ap.add_argument("--all-checks", action="store_true")
    ap.add_argument("--related", action="store_true")
    ap.add_argument("--seeds", type=int, default=1)
    ap.add_argument("--dir", default="seeded")
    ap.add_argument("--results", default=None)
    args = ap.parse_args()
    seeded = os.path.join(VERIF, args.dir)
    ids = args.ids or sorted(d for d in os.listdir(seeded) if os.path.isdir(os.path.join(seeded, d)))
    results_path = os.path.join(VERIF, "selftest", args.results or ("results-%s.json" % os.path.basename(args.dir)))
    results = {}
    if os.path.exists(results_path):
        results = json.load(open(results_path))
    head = subprocess.run(["git", "-C", REPO, "rev-parse", "--short", "HEAD"], capture_output=True, text=True).stdout.strip()
    failed = 0
    for sid in ids:
        d = os.path.join(seeded, sid)
        meta = json.load(open(os.path.join(d, "meta.json")))
        prop = meta["property"]
        scratch = tempfile.mkdtemp(prefix="vf-seeded-")
        copy = os.path.join(scratch, "repo")
        try:
            subprocess.run(["git", "-C", REPO, "worktree", "add", "-q", "--detach", copy, "HEAD"], check=True)
            ap_ = subprocess.run(["git", "-C", copy, "apply", os.path.join(d, "patch.diff")], capture_output=True, text=True)
            entry = {"property": prop, "repo_head": head, "tier": args.tier}
            if ap_.returncode != 0:
                entry["error"] = "patch does not apply: " + ap_.stderr[:300]
                if meta.get("control"):
                    # a refactoring written against an earlier /repo HEAD (meta.repo_head) that overlaps a later fix:
                    # kept with its recorded results, not re-run
                    entry["stale"] = True
                    entry["written_for"] = meta.get("repo_head")
                    old = results.get(sid) or {}
                    if old.get("checks"):
                        entry["last_results"] = {"repo_head": old.get("repo_head"), "checks": old.get("checks")}
                    elif old.get("last_results"):
                        entry["last_results"] = old["last_results"]
                    results[sid] = entry
                    print(sid, "STALE (written for %s, overlaps a later fix)" % meta.get("repo_head"))
                    continue
                results[sid] = entry
                print(sid, "PATCH DOES NOT APPLY")
                failed += 1
                continue
            if args.tests:
                t = subprocess.run(["/venv/bin/python", "-m", "pytest", "-q", "-p", "no:cacheprovider", "--timeout=900",
                                    "tests"], cwd=copy, env=dict(os.environ, PYTHONPATH=copy), capture_output=True,
                                   text=True)
                entry["tests"] = t.stdout.strip().splitlines()[-1] if t.stdout.strip() else "?"
            demo = os.path.join(d, "demo.py")
            if os.path.exists(demo):
                dm = subprocess.run(["/venv/bin/python", "-B", demo], env=dict(os.environ, PYTHONPATH=copy),
                                    capture_output=True, text=True, timeout=600, cwd=scratch)
                entry["demo_exit_with_change"] = dm.returncode
            checks = ALL if args.all_checks else [prop]
            if args.related:
                # the checks of every property anchored in a file the change touches
                touched = set(l[6:] for l in open(os.path.join(d, "patch.diff")).read().splitlines()
                              if l.startswith("+++ b/"))
                checks = sorted(set([prop] + [c for f in touched for c in RELATED.get(f, [])]))
            entry["checks"] = {}
            for c in checks:
                for seed in range(args.seeds):
                    r = run_check(c, copy, args.tier, seed)
                    entry["checks"].setdefault(c, []).append(r)
            own = entry["checks"][prop]
            entry["caught"] = any(r["exit"] == 1 for r in own)
            entry["inconclusive"] = any(r["exit"] == 2 for r in own)
            entry["control"] = bool(meta.get("control"))
            entry["caught_by"] = sorted(c for c, rs in entry["checks"].items() if any(r["exit"] == 1 for r in rs))
            results[sid] = entry
            if entry["control"]:
                verdict = "CONTROL-SILENT (expected)" if not entry["caught"] else "CONTROL-FIRED (false alarm?)"
                bad = entry["caught"]
            else:
                verdict = "CAUGHT" if entry["caught"] else ("INCONCLUSIVE" if entry["inconclusive"] else "MISSED")
                bad = not entry["caught"]
            print(sid, prop, verdict, entry.get("tests", ""), own[0]["keys"][:3], "by:", entry["caught_by"])
            if bad:
                failed += 1
        finally:
            subprocess.run(["git", "-C", REPO, "worktree", "remove", "--force", copy], capture_output=True)
            shutil.rmtree(scratch, ignore_errors=True)
        with open(results_path, "w") as fh:
            json.dump(results, fh, indent=1, sort_keys=True)
            fh.write("\n")
    return 1 if failed else 0


if __name__ == "__main__":
    sys.exit(main())
