"""
Generated class shapes for C07 / C20: attribute-dict classes, slotted classes,
inheritance chains of either, classes with a custom serialisation method and
constructor arguments, enum members, Decimals.  Classes are built with type()
inside synthetic modules inserted in sys.modules (module-qualified naming) or
with __module__ = "__main__" (local naming, registered in Config.classes).
"""

import decimal
import enum
import sys
import types

from vf import gen

_serial = [0]
SYN_PREFIX = "vfsyn_"


def _new_module():
    _serial[0] += 1
    name = "%s%d" % (SYN_PREFIX, _serial[0])
    mod = types.ModuleType(name)
    sys.modules[name] = mod
    return mod


def cleanup_modules():
    for name in [n for n in sys.modules if n.startswith(SYN_PREFIX)]:
        del sys.modules[name]


def actual_name(clsname, field):
    """Attribute name under which a field declared as `field` in class `clsname` is stored."""
    if field.startswith("__") and not field.endswith("__"):
        return "_%s%s" % (clsname.lstrip("_"), field)
    return field


class Shape(object):
    """
    One generated class.
      kind       'dict' | 'slots' | 'serialize-list' | 'serialize-dict'
      fields     declared names of this class's own fields (e.g. 'a', '_p', '__m')
      base       Shape or None
      local      True: __module__ == '__main__' and registered in Config.classes
    """

    def __init__(self, name, kind, fields, base=None, local=False, module=None, serialize_name="_serialize"):
        self.name = name
        self.kind = kind
        self.fields = list(fields)
        self.base = base
        self.local = local
        self.serialize_name = serialize_name
        self.module = module
        self.cls = None

    def chain(self):
        out = []
        s = self
        while s is not None:
            out.append(s)
            s = s.base
        return out[::-1]

    def all_fields(self):
        """[(declared, actual attribute name)] over the inheritance chain."""
        out = []
        for s in self.chain():
            for f in s.fields:
                out.append((f, actual_name(s.name, f)))
        return out

    def describe(self):
        return {"name": self.name, "kind": self.kind + (":" + getattr(self, "slot_style", "") if self.kind == "slots" else ""),
                "fields": self.fields, "local": self.local,
                "base": self.base.describe() if self.base else None}

    def build(self):
        if self.cls is not None:
            return self.cls
        bases = (self.base.build(),) if self.base else (object,)
        ns = {}
        if self.kind == "slots":
            style = getattr(self, "slot_style", "tuple")
            if style == "string" and len(self.fields) == 1:
                ns["__slots__"] = self.fields[0]          # one slot declared by a plain string
            elif style == "list":
                ns["__slots__"] = list(self.fields)
            elif style == "weakref" and all(s.kind == "slots" and getattr(s, "slot_style", "") != "weakref"
                                            for s in self.chain()[:-1]):
                # the usual way of making a slotted class weak-referenceable: not a field
                ns["__slots__"] = tuple(self.fields) + ("__weakref__",)
            else:
                ns["__slots__"] = tuple(self.fields)
        if self.kind in ("serialize-list", "serialize-dict"):
            shape = self
            ctor_fields = [a for _, a in shape.all_fields()][:2]
            rest = [a for _, a in shape.all_fields()][2:]

            def __init__(self, *args, **kwargs):
                for name, value in zip(ctor_fields, args):
                    setattr(self, name, value)
                for name, value in kwargs.items():
                    setattr(self, name, value)
                self._built_with = (len(args), sorted(kwargs))

            def serialize(self):
                if shape.kind == "serialize-list":
                    params = [getattr(self, n) for n in ctor_fields]
                else:
                    params = {n: getattr(self, n) for n in ctor_fields}
                return params, {n: getattr(self, n) for n in rest}
            ns["__init__"] = __init__
            ns[self.serialize_name] = serialize
        if self.local and getattr(self, "hidden", False):
            # a class that exists in an importable module without being reachable as module.Name (defined inside a
            # function, built by a factory): only the local class table can name it
            mod = _new_module()
            ns["__module__"] = mod.__name__
            self.cls = type(self.name, bases, ns)
        elif self.local:
            ns["__module__"] = "__main__"
            self.cls = type(self.name, bases, ns)
        else:
            mod = self.module or _new_module()
            self.module = mod
            ns["__module__"] = mod.__name__
            self.cls = type(self.name, bases, ns)
            setattr(mod, self.name, self.cls)
        return self.cls

    def json_name(self):
        return self.name if self.local else "%s.%s" % (self.module.__name__, self.name)


FIELD_NAMES = ["a", "b2", "value", "_p", "_prot2", "__m", "__priv2", "x_y", "Z", "__d__"]


def gen_shape(rng, local=None, depth=None, kinds=("dict", "slots"), serialize=False):
    """An inheritance chain of depth 0..3 of dict / slotted classes (or one serialize-style class)."""
    _serial[0] += 1
    uid = _serial[0]
    local = rng.random() < 0.4 if local is None else local
    mod = None if local else _new_module()
    if serialize:
        nf = rng.randint(2, 5)
        fields = rng.sample(["a", "b2", "value", "x_y", "Z", "_p"], nf)
        return Shape("S%d" % uid, rng.choice(["serialize-list", "serialize-dict"]), fields, None, local, mod)
    depth = rng.randint(0, 3) if depth is None else depth
    base = None
    used = set()
    for level in range(depth + 1):
        avail = [f for f in FIELD_NAMES if f not in used]
        nf = rng.randint(0, min(5, len(avail)))
        fields = rng.sample(avail, nf)
        # name-mangled names are per class, so they may repeat along the chain
        used.update(f for f in fields if not f.startswith("__") or f.endswith("__"))
        kind = rng.choice(kinds)
        name = "%s%d_%d" % (rng.choice(["Bean", "_Under", "K"]), uid, level)
        base = Shape(name, kind, fields, base, local, mod)
        if local and getattr(gen_shape, "hidden_locals", False) and rng.random() < 0.3:
            base.hidden = True
        if kind == "slots":
            base.slot_style = rng.choice(["tuple", "tuple", "list", "string", "weakref"])
    return base


# ---------------------------------------------------------------------------
# enums / decimals

def gen_enum(rng, local):
    _serial[0] += 1
    name = "Color%d" % _serial[0]
    members = rng.choice([{"RED": 1, "GREEN": 2, "BLUE": 3}, {"A": "a", "B": "b"}, {"ZERO": 0, "ONE": 1},
                          {"N": None, "T": True}, {"X": 1.5, "Y": -2.5}, {"E": "", "F": "é"},
                          # members whose value is not a JSON scalar (the Planet example of the enum documentation)
                          {"EARTH": (5.976e+24, 6378140.0), "MARS": (6.421e+23, 3397200.0)},
                          {"LOW": decimal.Decimal("1.50"), "HIGH": decimal.Decimal("99")},
                          {"PAIR": (decimal.Decimal("0.1"), "x"), "NONE": ()}])
    mod = None
    if local:
        cls = enum.Enum(name, members, module="__main__")
    else:
        mod = _new_module()
        cls = enum.Enum(name, members, module=mod.__name__)
        setattr(mod, name, cls)
    return cls, mod


DECIMALS = ["0", "1.5", "-2.50", "1E+30", "0.000001", "123456789012345678901234567890.123", "Infinity", "-0"]


# ---------------------------------------------------------------------------
# canonical comparison of object graphs

def is_bean(x):
    return not isinstance(x, (type(None), bool, int, float, str, list, tuple, set, frozenset, dict))


def canon(x, fields_of):
    """
    Canonical typed form of a value possibly holding generated beans, under
    container normalisation (tuple/set/frozenset -> list; sets as sorted bags).
    fields_of(obj) -> [actual attribute names] or None for opaque objects.
    """
    if isinstance(x, (list, tuple)):
        return "[" + ",".join(canon(v, fields_of) for v in x) + "]"
    if isinstance(x, (set, frozenset)):
        return "[" + ",".join(sorted(canon(v, fields_of) for v in x)) + "]"
    if isinstance(x, dict):
        return "{" + ",".join(sorted(gen.trepr(k) + "=" + canon(v, fields_of) for k, v in x.items())) + "}"
    if isinstance(x, enum.Enum):
        return "enum:%s.%s" % (type(x).__name__, x.name)
    if isinstance(x, decimal.Decimal):
        return "decimal:%s" % (x,)
    if is_bean(x):
        names = fields_of(x)
        if names is None:
            return "opaque:%s" % type(x).__name__
        parts = []
        for n in names:
            try:
                parts.append(n + "=" + canon(getattr(x, n), fields_of))
            except AttributeError:
                parts.append(n + "=<unset>")
        return "bean:%s(%s)" % (type(x).__name__, ",".join(parts))
    return gen.trepr(x)


def canon_sets_as_lists(x, fields_of):
    """Like canon but a loaded list standing for a set is compared as a bag: used on the reloaded side."""
    return canon(x, fields_of)


def same(orig, loaded, fields_of, path="$"):
    """
    None when `loaded` equals `orig` up to container normalisation (tuples and
    sets become lists; sets compared as bags), same classes and equal fields for
    beans, identical members for enums; else the path of the first difference.
    """
    if isinstance(orig, (list, tuple)):
        if type(loaded) is not list or len(loaded) != len(orig):
            return path + ":sequence"
        for i, (o, l) in enumerate(zip(orig, loaded)):
            r = same(o, l, fields_of, "%s[%d]" % (path, i))
            if r:
                return r
        return None
    if isinstance(orig, (set, frozenset)):
        if type(loaded) is not list or len(loaded) != len(orig):
            return path + ":set"
        a = sorted(canon(v, fields_of) for v in orig)
        b = sorted(canon(v, fields_of) for v in loaded)
        return None if a == b else path + ":set-members"
    if isinstance(orig, dict):
        if type(loaded) is not dict or len(loaded) != len(orig):
            return path + ":dict"
        lk = {gen.trepr(k): v for k, v in loaded.items()}
        for k, v in orig.items():
            t = gen.trepr(k)
            if t not in lk:
                return path + ":dict-key"
            r = same(v, lk[t], fields_of, "%s.%s" % (path, k))
            if r:
                return r
        return None
    if isinstance(orig, enum.Enum):
        return None if loaded is orig else path + ":enum"
    if isinstance(orig, decimal.Decimal):
        return None if (type(loaded) is decimal.Decimal and str(loaded) == str(orig)) else path + ":decimal"
    if is_bean(orig):
        if type(loaded) is not type(orig):
            return path + ":class(%s)" % type(loaded).__name__
        for n in fields_of(orig) or []:
            if not hasattr(loaded, n):
                return "%s.%s:missing" % (path, n)
            r = same(getattr(orig, n), getattr(loaded, n), fields_of, "%s.%s" % (path, n))
            if r:
                return r
        return None
    return None if gen.teq(orig, loaded) else path + ":primitive"
