"""
Runs request bodies through a real dispatcher in a CHILD interpreter and watches its progress: a body on which the
child makes no progress for `stall_s` seconds is a body the dispatcher does not terminate on (a regular expression or
a C-level loop holds the GIL, so an in-process watchdog thread could not even observe it).
"""

import json
import os
import select
import subprocess
import sys
import time

from vf import core

CHILD = r'''
import sys, json, logging
logging.disable(logging.CRITICAL)
from vf import dispatchmon as dm
spec = json.loads(sys.stdin.read())
fx = dm.Fixture(dm.std_reg("default"), version=spec["version"], use_jsonclass=spec["use_jsonclass"])
for i, body in enumerate(spec["bodies"]):
    try:
        out = fx.dispatch(body)
        status = "ok"
    except BaseException as ex:
        status = "raised:" + type(ex).__name__
    sys.stdout.write("%d %s\n" % (i, status))
    sys.stdout.flush()
'''


def run_bodies(bodies, version=2.0, use_jsonclass=True, stall_s=20.0):
    """Returns (statuses: list, hung_index or None)."""
    env = dict(os.environ, PYTHONPATH=core.REPO + os.pathsep + core.VERIF)
    proc = subprocess.Popen([sys.executable, "-B", "-c", CHILD], stdin=subprocess.PIPE, stdout=subprocess.PIPE,
                            stderr=subprocess.DEVNULL, env=env)
    proc.stdin.write(json.dumps({"bodies": bodies, "version": version, "use_jsonclass": use_jsonclass}).encode())
    proc.stdin.close()
    statuses = []
    buf = b""
    last = time.monotonic()
    hung = None
    while True:
        r, _, _ = select.select([proc.stdout], [], [], 0.5)
        if r:
            data = os.read(proc.stdout.fileno(), 65536)
            if not data:
                break
            buf += data
            while b"\n" in buf:
                line, buf = buf.split(b"\n", 1)
                parts = line.decode().split(" ", 1)
                statuses.append(parts[1] if len(parts) > 1 else "?")
                last = time.monotonic()
        elif time.monotonic() - last > stall_s:
            hung = len(statuses)
            proc.kill()
            break
        if proc.poll() is not None and not r:
            break
    try:
        proc.wait(5)
    except subprocess.TimeoutExpired:
        proc.kill()
    if hung is None and len(statuses) < len(bodies):
        hung = -1 - len(statuses)   # the child died: not a hang, reported separately
    return statuses, hung
