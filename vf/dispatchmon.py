"""
Dispatcher fixtures and the shared monitor of the server-side properties
(C02, C03, C04, C05, C13): runs a body through the real marshaled entry point,
records what escaped / what came out / which probes ran, and compares with the
reference dispatcher entry by entry.  Each property's check keeps only the
aspects that belong to it.
"""

import json

from vf import gen, oracle
from vf.probes import ProbeLog, Spec, build_instance, EXC_CLASSES, UserError, UnprintableError


class Fixture(object):
    """A real SimpleJSONRPCDispatcher (or server) built from a RegModel."""

    def __init__(self, reg, version=2.0, use_jsonclass=True, pool=None, config=None, extra=None, dispatcher_class=None):
        import jsonrpclib.config
        from jsonrpclib.SimpleJSONRPCServer import SimpleJSONRPCDispatcher
        self.reg = reg
        self.version = version
        self.log = ProbeLog()
        self.config = config or jsonrpclib.config.Config(version=version, use_jsonclass=use_jsonclass)
        self.dispatcher = (dispatcher_class or SimpleJSONRPCDispatcher)(config=self.config)
        self.custom = None
        self.extra = dict(extra or {})     # plain functions registered by name on every dispatcher/server of this fixture
        self.install(self.dispatcher)
        if pool is not None:
            self.dispatcher.set_notification_pool(pool)
        self.pool = pool

    def install(self, dispatcher):
        reg, log = self.reg, self.log
        for name, fn in self.extra.items():
            dispatcher.register_function(fn, name)
        table = {name: spec.build(log) for name, spec in reg.funcs.items()}
        self.table = table
        if reg.mode == "default":
            for name, fn in table.items():
                dispatcher.register_function(fn, name)
            if reg.tree is not None:
                dispatcher.register_instance(build_instance(reg.tree, log), allow_dotted_names=True)
        else:
            def resolve_and_call(method, params):
                try:
                    fn = table[method]
                except KeyError:
                    raise LookupError("method %s is not supported" % method)
                if isinstance(params, list):
                    return fn(*params)
                return fn(**params)
            if reg.mode == "custom":
                self.custom = resolve_and_call
            else:
                class Inst(object):
                    def _dispatch(self, method, params):
                        return resolve_and_call(method, params)
                inst = Inst()
                # the usual shape: an object routing to its own public methods (they are reachable by name as well)
                for name, fn in table.items():
                    if name.isidentifier() and not name.startswith("_"):
                        setattr(inst, name, fn)
                dispatcher.register_instance(inst)

    def dispatch(self, text):
        if self.custom is not None:
            return self.dispatcher._marshaled_dispatch(text, self.custom)
        return self.dispatcher._marshaled_dispatch(text)


# ---------------------------------------------------------------------------
# standard registries

def std_funcs():
    funcs = {
        "echo": Spec("echo"),
        "two": Spec("two", "a, b"),
        "opt": Spec("opt", "a, b=2, *rest"),
        "kwonly": Spec("kwonly", "a=0, *, k=1"),
        "noargs": Spec("noargs", ""),
        "kw": Spec("kw", "**kw"),
        "ns.sum": Spec("ns.sum", "*args"),
        "é": Spec("é"),
        "const0": Spec("const0", "*a, **k", ("const", 0)),
        "constnull": Spec("constnull", "*a, **k", ("const", None)),
        "constfalse": Spec("constfalse", "*a, **k", ("const", False)),
        "constlist": Spec("constlist", "*a, **k", ("const", [])),
        "conststr": Spec("conststr", "*a, **k", ("const", "")),
        "fail": Spec("fail", "*a, **k", ("raise", ValueError, "Everything I do fails")),
        "failkey": Spec("failkey", "*a, **k", ("raise", KeyError, "k")),
        "failos": Spec("failos", "*a, **k", ("raise", OSError, "disk on fire")),
        "failuser": Spec("failuser", "*a, **k", ("raise", UserError, "user défined")),
        "failempty": Spec("failempty", "*a, **k", ("raise", RuntimeError, None)),
        "failstr": Spec("failstr", "*a, **k", ("raise", UnprintableError, "text that str() cannot give")),
        "failattr": Spec("failattr", "*a, **k", ("raise", AttributeError, "'NoneType' object has no attribute 'x'")),
        "faillookup": Spec("faillookup", "*a, **k", ("raise", KeyError, "faillookup")),
        "failtype": Spec("failtype", "*a, **k", ("typeerror-body", "unsupported operand inside body")),
        "badresult": Spec("badresult", "*a, **k", ("unconvertible",)),
        "badresult2": Spec("badresult2", "*a, **k", ("unconvertible", "late")),
        "badresult3": Spec("badresult3", "*a, **k", ("unconvertible", "late-nested")),
        "notready": Spec("notready", "*a, **k", ("shared-fault", -32050)),
        "notready2": Spec("notready2", "*a, **k", ("shared-fault", 42)),
    }
    return funcs


def std_tree():
    return {
        "pub": Spec("inst.pub"),
        "two": Spec("inst.two-shadowed", "a, b"),  # flat registration wins
        "_priv": Spec("inst._priv"),
        "__dunder": Spec("inst.__dunder"),
        "data": ("value", 5),
        "sub": {
            "inner": Spec("inst.sub.inner", "x=1"),
            "_hidden": Spec("inst.sub._hidden"),
            "deeper": {"leaf": Spec("inst.sub.deeper.leaf"), "_no": Spec("inst.sub.deeper._no")},
            "fail": Spec("inst.sub.fail", "*a, **k", ("raise", ZeroDivisionError, "division by zero")),
        },
        "_hiddenns": {"leaf": Spec("inst._hiddenns.leaf")},
    }


METHOD_NAMES = ["echo", "two", "opt", "kwonly", "noargs", "kw", "ns.sum", "é", "const0", "constnull", "constfalse",
                "constlist", "conststr", "fail", "failkey", "failos", "failuser", "failempty", "failtype", "badresult", "badresult2", "badresult3",
                "notready", "notready2", "failattr", "faillookup",
                "pub", "_priv", "__dunder", "data", "sub", "sub.inner", "sub._hidden", "sub.deeper.leaf",
                "sub.deeper._no", "sub.fail", "_hiddenns.leaf", "sub.inner.__call__", "pub.__name__",
                "sub.__class__", "pub.spec", "nosuch", "no.such", "system.listMethods", "echo.x", ".", "..", "sub.",
                ".sub", "sub..inner", " echo", "Echo", "__init__", "_dispatch", "__class__.__name__"]


def std_reg(mode="default", with_tree=True, use_jsonclass=True):
    funcs = std_funcs()
    if not use_jsonclass:
        # with translation off an object result is simply not JSON-representable: outside every property's domain
        del funcs["badresult"]
    return oracle.RegModel(funcs, std_tree() if (with_tree and mode == "default") else None, mode)


# ---------------------------------------------------------------------------
# observation + comparison

class Obs(object):
    __slots__ = ("text", "raised", "output", "invocations", "parsed", "wf")


def drive(fx, text):
    obs = Obs()
    obs.text = text
    mark = fx.log.mark()
    obs.raised = None
    obs.output = None
    try:
        obs.output = fx.dispatch(text)
    except BaseException as ex:  # noqa
        obs.raised = ex
    obs.invocations = fx.log.since(mark)
    obs.parsed = None
    obs.wf = None
    if obs.raised is None:
        obs.wf, obs.parsed = oracle.wellformed_output(obs.output)
    return obs


def inv_repr(invs):
    return [(i[0], gen.trepr(gen.jn(i[1]))) for i in invs]


def judge(fx, text, obs, drained_invocations=None):
    """
    Returns (status, findings, ref):
      status    'judged' | 'outside' (domain) | 'malformed'
      findings  list of (aspect, key_suffix, detail)
    aspects: raise, wellformed, count, id, code, form, value, message,
             invocations, answered-notification, notification-not-run
    """
    reg = fx.reg
    findings = []
    if obs.raised is not None:
        findings.append(("raise", type(obs.raised).__name__, {"raised": obs.raised}))
        return "judged", findings, None
    if obs.wf:
        findings.append(("wellformed", obs.wf, {"output": obs.output}))
    parsed = oracle.parse_body(text)
    if parsed[0] == "outside":
        return "outside", findings, None
    invs = obs.invocations if drained_invocations is None else drained_invocations
    actual = obs.parsed
    if parsed[0] == "malformed":
        # a single -32700 error (the empty body may be answered as an invalid request), nothing runs
        if invs:
            findings.append(("invocations", "malformed-body-ran-something", {"ran": inv_repr(invs)}))
        if obs.wf is None:
            if type(actual) is not dict or "error" not in actual or actual.get("error") is None:
                findings.append(("code", "malformed:no-single-error", {"output": obs.output}))
            else:
                code = actual["error"].get("code")
                ok = (-32700,) if text.strip() else (-32700, -32600)
                if code not in ok:
                    findings.append(("code", "malformed:%r" % (code,), {"output": obs.output}))
                if actual.get("id") is not None:
                    findings.append(("id", "malformed:non-null-id", {"output": obs.output}))
        return "malformed", findings, None

    ref = oracle.ref_dispatch(parsed[1], reg, fx.version)
    # --- invocations: exactly the expected ones (inline: same order)
    exp_inv = oracle.expected_invocations(ref)
    got = inv_repr(invs)
    want = inv_repr(exp_inv)
    pooled = fx.pool is not None
    if (sorted(got) != sorted(want)) if pooled else (got != want):
        entries = [ref[1]] if ref[0] == "single" else ref[1]
        kind, cls = blame_invocations(entries, got, want)
        findings.append(("invocations", "%s:%s" % (kind, cls),
                         {"ran": got[:10], "expected": want[:10],
                          "entry_classes": [e.cls for e in entries][:12]}))
    if obs.wf:
        return "judged", findings, ref

    # --- responses
    exp = oracle.expected_responses(ref)
    if ref[0] == "single":
        entry = ref[1]
        if entry.exp is None:
            if actual is not None:
                findings.append(("answered-notification", entry.cls, {"output": obs.output}))
        elif actual is None:
            findings.append(("count", "no-response:" + entry.cls, {"output": obs.output}))
        elif type(actual) is list:
            findings.append(("count", "array-for-single:" + entry.cls, {"output": obs.output}))
        else:
            for aspect, why in oracle.compare_response(actual, entry):
                findings.append((aspect, _suffix(aspect, entry, actual), {"why": why, "response": actual}))
        return "judged", findings, ref

    entries = ref[1]
    if actual is None:
        actual_list = []
    elif type(actual) is dict:
        findings.append(("count", "object-for-batch", {"output": obs.output}))
        return "judged", findings, ref
    else:
        actual_list = actual
    n_notif = sum(1 for e in entries if e.exp is None)
    pairs = []
    if len(actual_list) == len(exp):
        pairs = list(zip(actual_list, exp))
    elif len(actual_list) > len(exp) and len(actual_list) - len(exp) <= n_notif:
        # some notification entries were answered: one-to-one is broken (C03) because a notification
        # got a response (C04); ids are not compared, the alignment being ambiguous
        classes = sorted(set(e.cls for e in entries if e.exp is None))
        findings.append(("answered-notification", "notification:in-batch",
                         {"got": len(actual_list), "expected": len(exp), "output": obs.output,
                          "notification_classes": classes}))
        findings.append(("count", "extra-responses:notification-answered",
                         {"got": len(actual_list), "expected": len(exp), "output": obs.output}))
    elif len(actual_list) > len(exp):
        findings.append(("count", "extra-responses", {"got": len(actual_list), "expected": len(exp),
                                                      "output": obs.output}))
    else:
        findings.append(("count", "missing-responses", {"got": len(actual_list), "expected": len(exp),
                                                        "output": obs.output,
                                                        "entry_classes": [e.cls for e in entries]}))
    for act, e in pairs:
        for aspect, why in oracle.compare_response(act, e):
            findings.append((aspect, _suffix(aspect, e, act), {"why": why, "response": act}))
    return "judged", findings, ref


def blame_invocations(entries, got, want):
    """Which entry's executions are wrong: (kind, entry class)."""
    import collections
    remaining = collections.Counter(got)
    for e in entries:
        for inv in inv_repr(e.invocations):
            if remaining[inv] <= 0:
                return "not-run", e.cls
            remaining[inv] -= 1
    extra = [k for k, v in remaining.items() if v > 0]
    if extra:
        for e in entries:
            if any(i in extra for i in inv_repr(e.invocations)):
                return "run-twice", e.cls
        idle = sorted(set(e.cls for e in entries if not e.invocations))
        return "ran-unexpected", "+".join(idle)[:80]
    return "order", "batch"


def _suffix(aspect, entry, actual):
    if aspect == "code":
        err = actual.get("error")
        got = err.get("code") if isinstance(err, dict) else "result"
        return "%s:%s" % (entry.cls, got)
    if aspect == "id":
        return "%s:%s" % (entry.cls, "lost" if actual.get("id") is None else "altered")
    if aspect == "form":
        return "%s:%s-for-%s" % (entry.cls, oracle.response_form(actual), entry.exp.form)
    return entry.cls


def apply(ctx, fx, cfg, text, aspects, bclass, drained=None):
    """
    Drives one body, judges it with the reference dispatcher, and records the
    findings whose aspect belongs to the calling property.
    Returns (status, obs, ref, findings_kept).
    """
    obs = drive(fx, text)
    if fx.config.use_jsonclass and "__jsonclass__" in text:
        # translated payloads: the reference cannot predict objects; only C02/C08 judge these
        ctx.count("unjudged:jsonclass-payload")
        return "jsonclass", obs, None, []
    invs = None
    if drained is not None:
        invs = drained(obs)
    status, findings, ref = judge(fx, text, obs, invs)
    kept = []
    for aspect, suffix, detail in findings:
        ctx.count("finding-any-aspect:" + aspect)
        if aspect in aspects:
            kept.append((aspect, suffix, detail))
            case = {"config": list(cfg), "body": text if len(text) < 3000 else None, "body_head": text[:100],
                    "bclass": bclass}
            ctx.violate("%s:%s:%s" % (aspect, suffix, fx.reg.mode), case, detail)
    if status == "judged" and ref is not None:
        entries = [ref[1]] if ref[0] == "single" else ref[1]
        for e in entries:
            ctx.count("entry:" + e.cls)
    elif status == "malformed":
        ctx.count("entry:malformed-body")
    return status, obs, ref, kept
