"""
Generators of request bodies: member-presence x type matrix, batches, damage
operators, random text, deep nesting, __jsonclass__ payloads.
"""

import itertools
import json

from vf import gen
from vf.dispatchmon import METHOD_NAMES

ABSENT = "<absent>"

V_JSONRPC = ["2.0", "1.0", 2.0, 2, None, True, [], {}, "", "x", 0, 1.5, "2", [2.0], {"v": 2}]
V_ID = [1, 0, -1, 1.5, "a", "", None, True, False, [], [1], {}, {"a": 1}, 2 ** 53, "é"]
V_METHOD = ["echo", "two", "fail", "nosuch", "", "sub.inner", "_priv", "failtype", None, 5, True, [], ["echo"], {},
            "badresult"]
V_PARAMS = [[], [1, 2], [1], {}, {"a": 1, "b": 2}, {"x": 1}, None, 0, 1, "s", "", True, 1.5, [[]], [None, {"k": []}]]


def matrix_size():
    return 16 ** 4


def matrix_entry(index):
    """index in [0, 16^4): one request object of the member-presence x type matrix."""
    obj = {}
    for name, values in (("jsonrpc", V_JSONRPC), ("id", V_ID), ("method", V_METHOD), ("params", V_PARAMS)):
        index, d = divmod(index, 16)
        if d:
            obj[name] = values[d - 1]
    return obj


# ---------------------------------------------------------------------------
# entries by class (for batch compositions)

def entry_of(kind, rng, ids=None):
    ids = ids or gen.IDS
    rid = rng.choice([i for i in ids if i not in (None, "")] or [1])
    two = rng.random() < 0.75
    base = {"jsonrpc": "2.0"} if two else {}
    if kind == "call":
        m = rng.choice(["echo", "opt", "kw", "const0", "constnull", "constfalse", "conststr", "ns.sum", "pub",
                        "sub.inner", "é"])
        e = dict(base, method=m, id=rid)
        if m in ("echo", "ns.sum", "pub", "é", "const0", "constnull", "constfalse", "conststr"):
            e["params"] = [gen.json_value(rng, 2, 3) for _ in range(rng.randint(0, 3))]
        elif m == "opt":
            e["params"] = [gen.json_value(rng, 1, 2) for _ in range(rng.randint(1, 4))]
        elif m == "kw":
            e["params"] = {"k" + str(i): gen.json_value(rng, 1, 2) for i in range(rng.randint(0, 3))}
        elif m == "sub.inner":
            e["params"] = rng.choice([[], [5], {"x": 2}])
        if "params" in e and not e["params"] and rng.random() < 0.5:
            del e["params"]
        return e
    if kind == "notification":
        m = rng.choice(["echo", "kw", "const0", "pub", "fail", "nosuch", "two"])
        e = dict(base, method=m)
        if m == "two" and rng.random() < 0.5:
            e["params"] = [1, 2]
        shape = rng.random()
        if not two:
            e["id"] = rng.choice([None, ""])
        elif shape < 0.3:
            e["id"] = None
        elif shape < 0.5:
            e["id"] = ""
        return e
    if kind == "invalid":
        return rng.choice([
            dict(base, id=rid), dict(base, method="", id=rid), dict(base, method=5, id=rid),
            dict(base, method="echo", params=7, id=rid), dict(base, method="echo", params="x", id=rid),
            dict(base, method=None, id=rid), {"method": "echo"}, {"method": "echo", "params": [1]}, {},
            dict(base, method=["echo"], id=rid), dict(base, method="echo", params=None, id=rid),
            dict(base, id=None), {"jsonrpc": "2.0"}, {"foo": "boo"},
        ])
    if kind == "nonobject":
        return rng.choice([1, 0, "x", "", None, True, False, [], [1], 1.5, ["echo"], [[]]])
    if kind == "failing":
        m = rng.choice(["fail", "failkey", "failos", "failuser", "failempty", "sub.fail", "notready", "notready", "failattr", "faillookup",
                        "notready2"])
        return dict(base, method=m, id=rid, params=rng.choice([[], [1], {"a": 1}]))
    if kind == "unknown":
        m = rng.choice(["nosuch", "no.such", "_priv", "sub._hidden", "sub.deeper._no", "_hiddenns.leaf",
                        "sub.inner.__call__", "Echo", "__init__", "system.listMethods"])
        return dict(base, method=m, id=rid)
    if kind == "badargs":
        m, p = rng.choice([("two", []), ("two", [1]), ("two", [1, 2, 3]), ("two", {"a": 1}), ("two", {"a": 1, "c": 2}),
                           ("noargs", [1]), ("noargs", {"x": 1}), ("kwonly", [1, 2]), ("kw", [1]),
                           ("opt", []), ("opt", {"b": 1}), ("sub.inner", [1, 2]), ("sub.inner", {"y": 1})])
        return dict(base, method=m, params=p, id=rid)
    if kind == "typeerror":
        return dict(base, method="failtype", id=rid)
    if kind == "unconvertible":
        return dict(base, method=rng.choice(["badresult", "badresult2", "badresult3"]), id=rid)
    raise AssertionError(kind)


BATCH_KINDS = ["call", "notification", "invalid", "failing", "unknown", "nonobject"]
ALL_KINDS = BATCH_KINDS + ["badargs", "typeerror", "unconvertible"]


def compositions(max_len, kinds=BATCH_KINDS):
    for n in range(1, max_len + 1):
        for combo in itertools.product(kinds, repeat=n):
            yield combo


# ---------------------------------------------------------------------------
# corpus + damage operators

CORPUS = [
    '{"jsonrpc": "2.0", "method": "echo", "params": [42, 23], "id": 1}',
    '{"jsonrpc": "2.0", "method": "kw", "params": {"subtrahend": 23, "minuend": 42}, "id": 3}',
    '{"jsonrpc": "2.0", "method": "echo", "params": [1,2,3,4,5]}',
    '{"jsonrpc": "2.0", "method": "noargs"}',
    '{"jsonrpc": "2.0", "method": "nosuch", "id": "1"}',
    '{"method": "echo", "params": ["é\\u00e9\\ud83d\\ude00"], "id": 9}',
    '{"method": "fail", "params": [], "id": null}',
    '[{"jsonrpc": "2.0", "method": "echo", "params": [1,2,4], "id": "1"},{"jsonrpc": "2.0", "method": "noargs"},'
    '{"foo": "boo"},{"jsonrpc": "2.0", "method": "fail", "id": 0}]',
    '[1,2,3]',
    '{"jsonrpc":"2.0","method":"two","params":{"a":1.5e3,"b":-0.0},"id":[1,{"x":null}]}',
    '{"jsonrpc": "2.0", "method": "sub.inner", "params": [true], "id": false}',
    ' \n{"id":1,"method":"const0","jsonrpc":"2.0"}\t',
]


def damaged(text):
    """Every proper prefix and every single-character delete / replace / insert."""
    n = len(text)
    for i in range(n):
        yield text[:i]
    repl = ['"', "{", "}", "[", "]", ",", ":", "0", "x", " ", "\\", "é", "\x00", "-", "e", "n"]
    for i in range(n):
        yield text[:i] + text[i + 1:]
        for c in repl:
            if c != text[i]:
                yield text[:i] + c + text[i + 1:]
    for i in range(n + 1):
        for c in ('"', "{", "]", ",", "1", "\\", "\x1f", "\U0001F600"):
            yield text[:i] + c + text[i:]


def random_text(rng):
    r = rng.random()
    if r < 0.3:
        return gen.rand_str(rng, 40)
    if r < 0.6:
        alphabet = '{}[]",:0123456789.eE+-truefalsn \n\\u"abc'
        return "".join(rng.choice(alphabet) for _ in range(rng.randint(0, 60)))
    if r < 0.8:
        return json.dumps(gen.json_value(rng, 4, 4))
    t = json.dumps(gen.json_value(rng, 3, 4))
    i = rng.randint(0, len(t))
    return t[:i] + gen.rand_str(rng, 3) + t[i:]


def deep(n, kind):
    if kind == "list":
        return "[" * n + "]" * n
    if kind == "dict":
        return '{"a":' * n + "1" + "}" * n
    if kind == "params":
        return '{"jsonrpc":"2.0","id":1,"method":"echo","params":[' + "[" * n + "]" * n + "]}"
    if kind == "unclosed":
        return "[" * n
    if kind == "id":
        return '{"jsonrpc":"2.0","id":' + "[" * n + "]" * n + ',"method":"echo"}'
    raise AssertionError(kind)


# ---------------------------------------------------------------------------
# __jsonclass__ payloads (side-effect free or unresolvable / invalid)

JSONCLASS_DESCRIPTORS = [
    ["decimal.Decimal", ["1.5"]], ["fractions.Fraction", [1, 3]], ["types.SimpleNamespace", {"a": 1}],
    ["no.such.module.Klass", []], ["decimal.NoSuchClass", []], ["Klass", []], ["", []], ["a-b.C", []],
    ["os;rm", []], ["decimal.Decimal", ["abc"]], ["decimal.Decimal", 5], ["decimal.Decimal"], [], "x", 5, None,
    ["decimal.Decimal", ["1"], "extra"], [["decimal.Decimal"], []], ["décimal.Decimal", []],
]


def jsonclass_bodies(rng):
    for desc in JSONCLASS_DESCRIPTORS:
        obj = {"__jsonclass__": desc}
        yield json.dumps({"jsonrpc": "2.0", "id": 1, "method": "echo", "params": [obj]})
        yield json.dumps({"jsonrpc": "2.0", "id": 1, "method": "kw", "params": {"v": [1, {"d": obj}]}})
        yield json.dumps({"jsonrpc": "2.0", "id": 1, "method": "echo", "__jsonclass__": desc})
        yield json.dumps({"jsonrpc": "2.0", "id": obj, "method": "echo"})
        yield json.dumps([{"jsonrpc": "2.0", "id": 1, "method": "echo"}, obj])
        yield json.dumps(dict(obj, extra=1))
        yield json.dumps({"method": "echo", "id": 2, "params": [dict(obj, attr=[1, 2])]})
    # ids that are (or hold) descriptors of harmless classes whose instances cannot be written back as JSON, on valid
    # calls and on entries that fail validation for another reason, alone and next to ordinary entries
    for desc in UNWRITABLE_DESCRIPTORS:
        for did in ({"__jsonclass__": desc}, [{"__jsonclass__": desc}], {"k": {"__jsonclass__": desc}}):
            for entry in ({"method": "echo", "params": [1]}, {"method": "fail"}, {"method": "nosuch"}, {"method": 5},
                          {"method": ""}, {}, {"method": "echo", "params": 7}, {"method": "two", "params": [1]}):
                for two in (True, False):
                    e = dict(entry, id=did)
                    if two:
                        e["jsonrpc"] = "2.0"
                    yield json.dumps(e)
                    if rng.random() < 0.5:
                        yield json.dumps([{"jsonrpc": "2.0", "id": 41, "method": "echo", "params": [1]}, e,
                                          {"id": "n2", "method": "echo", "params": [2]}])


UNWRITABLE_DESCRIPTORS = [["decimal.Decimal", ["1.5"]], ["builtins.set", [[1, 2]]], ["builtins.frozenset", [[1]]],
                          ["builtins.bytes", [[104, 105]]], ["builtins.complex", [1, 2]], ["builtins.object", []],
                          ["fractions.Fraction", [1, 3]], ["datetime.date", [2020, 1, 2]]]
