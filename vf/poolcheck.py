"""
Shared driver of the three pool properties: generates programs, runs them on
the real ThreadPool under the injector, runs the three offline checkers.  The
calling property fails only on its own oracle; the others' observations are
counted as cross_observations.
"""

import json
import sys
import time

from vf import core, inject, poolmon

RUN_FUNCS = {
    "ThreadPool.__run": ("worker",),
    "ThreadPool.enqueue": ("controller", "enqueuer"),
    "ThreadPool.start": ("controller",),
    "ThreadPool.__start_thread": ("controller", "enqueuer"),
    "ThreadPool.stop": ("controller",),
    "ThreadPool.clear": ("controller",),
    "ThreadPool.join": ("controller",),
    "FutureResult.execute": ("worker",),
    "FutureResult.__notify": ("worker",),
    "EventData.set": ("worker",),
    "EventData.raise_exception": ("worker",),
}

CHECKERS = {"C09": lambda ev, prog: poolmon.check_c09(ev, prog),
            "C10": lambda ev, prog: poolmon.check_c10(ev, prog)[0],
            "C11": lambda ev, prog: poolmon.check_c11(ev, prog)}


def stall_points():
    import jsonrpclib.threadpool as tp
    pts = []
    for qual, line in inject.statement_lines(tp):
        for fn, roles in RUN_FUNCS.items():
            if qual.endswith(fn):
                for role in roles:
                    for k in (1, 2, 3):
                        pts.append({"qualname": qual, "line": line, "role": role, "k": k})
    return pts


def instruction_stall_points():
    import jsonrpclib.threadpool as tp
    pts = []
    for qual, off in inject.instruction_points(tp):
        for fn, roles in RUN_FUNCS.items():
            if qual.endswith(fn):
                for role in roles:
                    for k in (1, 2):
                        pts.append({"qualname": qual, "offset": off, "role": role, "k": k})
    return pts


def setup():
    import jsonrpclib.threadpool as tp
    ok = poolmon.install_queue_shim()
    inj = inject.Injector([tp])
    inj.install()
    sys.setswitchinterval(1e-5)
    return inj, ok


def signature(events):
    """Interleaving signature: the sequence of (thread role, event kind), idle polling removed."""
    sig = []
    for seq, kind, name, f in events:
        if kind in ("get_call", "get_ret"):
            continue
        role = "w" if poolmon.is_worker_name(name) else name[3:6]
        sig.append(role + ":" + kind)
    return "|".join(sig)


def run_one(ctx, prop, inj, prog, mode, seed, plan=None, p=0.0, probe=True):
    inj.configure(mode, seed=seed, p=p, plan=plan)
    hits0 = inj.hits
    run = poolmon.PoolRun(prog, inj)
    t0 = time.time()
    events = run.execute(growth_probe=probe)
    inj.configure("none")
    if not events and run.error:
        ctx.unsure(run.error)
        return events, {}, run
    case = {"program": prog, "mode": mode, "p": p, "plan": plan, "inj_seed": seed}
    ctx.count("histories")
    ctx.count("events", len(events))
    ctx.count("mode:" + mode)
    if plan is not None and inj.hits > hits0:
        if "offset" in plan:
            ctx.count("instruction-stall-points-hit")
        else:
            ctx.count("stall-points-hit")
            ctx.cell("stall", plan["qualname"].split(".")[-1], plan["line"], plan["role"])
    ctx.cell("pool", "max%d" % prog["max"], "min%d" % prog["min"], "enq%d" % len(prog["enqueuers"]))
    if run.error:
        ctx.count("controller-errors")
    frozen_inconclusive = bool(run.frozen and run.frozen.get("inconclusive"))
    if frozen_inconclusive:
        ctx.unsure("watchdog fired without a frozen state: " + run.frozen["what"])
    n_tasks = sum(1 for e in events if e[1] == "task_start")
    ctx.case(signature(events), nontrivial=n_tasks > 0)
    ctx.count("task-executions", n_tasks)
    results = {}
    for pid, fn in CHECKERS.items():
        try:
            results[pid] = fn(events, prog)
        except Exception as ex:  # checker bug: never green
            ctx.unsure("checker %s failed: %s" % (pid, core.format_exc(ex)[-300:]))
            results[pid] = []
        ctx.count("checker-evaluations:" + pid)
    detail_extra = {}
    if run.frozen:
        detail_extra["frozen"] = run.frozen
    if run.error:
        detail_extra["controller_error"] = run.error
    restarted = False
    seen_stop = False
    for e in events:
        if e[1] == "stop_ret" and e[3].get("effective"):
            seen_stop = True
        elif e[1] == "start_call" and seen_stop:
            restarted = True
    for pid, findings in results.items():
        for key, detail in findings:
            if prop == "C11" and pid != "C11" and restarted:
                # "a stopped pool can be started again and then behaves as a fresh pool"
                d = dict(detail)
                d.update(detail_extra)
                d["events_tail"] = [[e[0], e[1], e[2], e[3]] for e in events[-40:]]
                ctx.violate("restarted-pool-misbehaves:%s:%s" % (pid, key), case, d)
            if pid == prop:
                d = dict(detail)
                d.update(detail_extra)
                d["events_tail"] = [[e[0], e[1], e[2], e[3]] for e in events[-40:]]
                ctx.violate(key, case, d)
            else:
                ctx.count("cross_observation:%s:%s" % (pid, key))
    return events, results, run


def run(ctx, prop, focus, n_hist, n_stall, stall_programs=1, n_istall=0):
    inj, ok = setup()
    if not ok:
        ctx.unsure("the pool module no longer looks up `queue` at call time: MonitoredQueue not attached")
        return
    rng = ctx.rng
    pts = stall_points()
    ctx.counters["stall-points-enumerated"] = len(pts)
    # 1. random programs under none / yield
    for i in range(n_hist):
        if ctx.time_left() < 5:
            ctx.unsure("time budget exhausted after %d histories" % i)
            break
        prog = poolmon.gen_program(rng, focus)
        r = rng.random()
        if r < 0.2:
            mode, p = "none", 0.0
        else:
            mode, p = "yield", rng.choice([0.05, 0.2, 0.5])
        events, results, run_ = run_one(ctx, prop, inj, prog, mode, rng.randrange(1 << 30), p=p)
        if i < 2 and ctx.shard == 0:
            ctx.sample({"program": prog, "mode": mode, "p": p, "n_events": len(events),
                        "first_events": [[e[1], e[2], e[3]] for e in events[:25]]})
    # 1b. thread-creation faults: the OS refuses the next few worker threads of a running pool; what is judged is the
    #     fault-free behaviour afterwards (everything accepted still runs, the pool still grows to max_threads)
    if poolmon.install_thread_fault_shim():
        for i in range(max(4, n_hist // 8)):
            if ctx.time_left() < 5:
                break
            prog = poolmon.gen_program_thread_faults(rng)
            mode, p = ("none", 0.0) if rng.random() < 0.5 else ("yield", rng.choice([0.05, 0.2]))
            events, results, run_ = run_one(ctx, prop, inj, prog, mode, rng.randrange(1 << 30), p=p)
            ctx.count("thread-fault-histories")
            ctx.count("thread-creations-refused", sum(1 for e in events if e[1] == "thread_start_refused"))
    else:
        ctx.count("thread-fault-shim-unavailable")
    # 1c. stop() with a full bounded queue, busy workers and a very long idle timeout
    for i in range(max(3, n_hist // 20)):
        if ctx.time_left() < 5:
            break
        prog = poolmon.gen_program_stop_full_queue(rng)
        mode, p = ("none", 0.0) if rng.random() < 0.5 else ("yield", rng.choice([0.05, 0.2]))
        run_one(ctx, prop, inj, prog, mode, rng.randrange(1 << 30), p=p)
        ctx.count("stop-with-full-bounded-queue-histories")
    # 1d. a producer blocked on a full bounded queue must not keep the workers from draining it
    # (C10 quantifies over queue_size; C09 and C11 do not)
    for i in range(max(2, n_hist // 40) if prop == "C10" else 0):
        if ctx.time_left() < 5:
            break
        prog = poolmon.gen_program_blocked_producer(rng)
        run_one(ctx, prop, inj, prog, "none", rng.randrange(1 << 30))
        ctx.count("blocked-producer-histories")
    # 2. stall sweep: each point against small programs.  The points are the (function, line, thread role) triples
    #    that phase 1 actually saw being executed - no function name of the pool module is assumed
    learned = sorted(inj.seen)
    if learned:
        import jsonrpclib.threadpool as tpm
        roles_by_fn = {}
        for (q, l, r) in learned:
            roles_by_fn.setdefault(q, set()).add(r)
        # functions and roles are learned; their statement lines are enumerated statically, so that every shard
        # partitions the same list
        pts = [{"qualname": q, "line": l, "role": r, "k": k} for (q, l) in sorted(set(inject.statement_lines(tpm)))
               if q in roles_by_fn for r in sorted(roles_by_fn[q]) for k in (1, 2, 3)]
        ctx.counters["stall-points-enumerated"] = len(pts)
    mine = [pt for i, pt in enumerate(pts) if ctx.mine(i)]
    rng.shuffle(mine)
    for pt in mine[:n_stall]:
        if ctx.time_left() < 5:
            ctx.unsure("time budget exhausted during the stall sweep")
            break
        for rep in range(stall_programs):
            prog = poolmon.gen_program(rng, focus)
            plan = dict(pt, budget=rng.choice([20, 60, 150, 400]), cap=0.03)
            run_one(ctx, prop, inj, prog, "stall", rng.randrange(1 << 30), plan=plan)
    # 2b. the retirement window: a worker parked at each line it executes (k-th hit 1..3) for the whole cap while the
    #     controller idles for about the pool's timeout between tasks, so that submissions meet retiring workers
    wmine = [pt for pt in mine if pt["role"] == "worker"]
    for pt in wmine[:max(8, n_stall // 3)]:
        if ctx.time_left() < 5:
            break
        prog = poolmon.gen_program_retirement_window(rng)
        plan = dict(pt, budget=10 ** 9, cap=0.05)
        hits0 = inj.hits
        run_one(ctx, prop, inj, prog, "stall", rng.randrange(1 << 30), plan=plan)
        ctx.count("retirement-window-histories")
        if inj.hits > hits0:
            ctx.count("retirement-window-stalls-hit")
    # 2c. submissions that land inside start(): the controller parked at each of its lines while another thread submits
    #     its only tasks
    cmine = [pt for pt in mine if pt["role"] == "controller"]
    for pt in cmine[:max(8, n_stall // 3)]:
        if ctx.time_left() < 5:
            break
        prog = poolmon.gen_program_enqueue_during_start(rng)
        plan = dict(pt, k=1, budget=10 ** 9, cap=0.05)
        hits0 = inj.hits
        run_one(ctx, prop, inj, prog, "stall", rng.randrange(1 << 30), plan=plan)
        ctx.count("enqueue-during-start-histories")
        if inj.hits > hits0:
            ctx.count("enqueue-during-start-stalls-hit")
    for i in range(max(3, n_hist // 20)):
        if ctx.time_left() < 5:
            break
        prog = poolmon.gen_program_enqueue_during_start(rng)
        run_one(ctx, prop, inj, prog, "yield", rng.randrange(1 << 30), p=rng.choice([0.05, 0.2, 0.5]))
        ctx.count("enqueue-during-start-histories")
    for i in range(max(3, n_hist // 20)):
        if ctx.time_left() < 5:
            break
        prog = poolmon.gen_program_retirement_window(rng)
        run_one(ctx, prop, inj, prog, "yield", rng.randrange(1 << 30), p=rng.choice([0.05, 0.2, 0.5]))
        ctx.count("retirement-window-histories")
    # 3. instruction-level stall sweep (preemption inside a source line, e.g. between the load and the store of `x += 1`)
    import jsonrpclib.threadpool as tpmod
    roles_of = {}
    for (q, l, r) in inj.seen:
        roles_of.setdefault(q, set()).add(r)
    ipts = [{"qualname": q, "offset": off, "role": r, "k": k}
            for (q, off) in inject.instruction_points(tpmod) for r in sorted(roles_of.get(q, ())) for k in (1, 2)]
    if not ipts:
        ipts = instruction_stall_points()
    ctx.counters["instruction-stall-points-enumerated"] = len(ipts)
    imine = [pt for i, pt in enumerate(ipts) if ctx.mine(i)]
    rng.shuffle(imine)
    # read-modify-write windows first: every one of them is tried in every run (both tiers)
    import jsonrpclib.threadpool as tp
    rmw = set(inject.rmw_points(tp))
    first = [pt for i, pt in enumerate(p for p in ipts if (p["qualname"], p["offset"]) in rmw) if ctx.mine(i)]
    ctx.counters["rmw-stall-points-enumerated"] = len(first)
    for pt in first:
        if ctx.time_left() < 5:
            break
        for rep in range(12):
            # busy programs: two enqueuer threads keep submitting while a thread sits inside the window
            if rep % 2 == 0 and pt["role"] == "controller" and rep % 4 == 0:
                prog = poolmon.gen_program_lifecycle_call_under_burst(rng)
            elif rep % 2 == 0:
                prog = poolmon.gen_program_start_under_load(rng)
            else:
                prog = poolmon.gen_program(rng, focus, busy=rep % 4 != 3)
            plan = dict(pt, k=rng.choice([1, 1, 2, 3, 5]), budget=rng.choice([150, 400, 1000]), cap=0.05)
            if rep % 2 == 0:
                # the thread stays inside the window for the whole cap: the other threads' updates land inside it
                plan = dict(pt, k=1 if rep % 4 == 0 else rng.choice([1, 2, 3]), budget=10 ** 9, cap=0.05)
            hits0 = inj.hits
            run_one(ctx, prop, inj, prog, "istall", rng.randrange(1 << 30), plan=plan)
            if inj.hits > hits0:
                ctx.count("rmw-stall-points-hit")
    for pt in imine[:n_istall]:
        if ctx.time_left() < 5:
            ctx.unsure("time budget exhausted during the instruction-level sweep")
            break
        prog = poolmon.gen_program(rng, focus)
        plan = dict(pt, budget=rng.choice([20, 60, 150, 400]), cap=0.03)
        run_one(ctx, prop, inj, prog, "istall", rng.randrange(1 << 30), plan=plan)
    snap = inj.snapshot()
    ctx.counters["monitored-lines-executed"] = snap["lines"]
    ctx.counters["program-points-seen"] = snap["points_seen"]
    ctx.counters["yields-injected"] = snap["yields"]
    inj.uninstall()


def replay(ctx, prop, case, attempts=50):
    inj, ok = setup()
    prog = case["program"]
    hit = 0
    for i in range(attempts):
        before = len(ctx.violations) + sum(ctx._vio_per_key.values())
        run_one(ctx, prop, inj, prog, case["mode"], case.get("inj_seed", 0) + i, plan=case.get("plan"),
                p=case.get("p", 0.0))
        if sum(ctx._vio_per_key.values()) + len(ctx.violations) > before:
            hit += 1
    print("replayed %d times, violated in %d" % (attempts, hit))
    inj.uninstall()
