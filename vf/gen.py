"""
Seeded generators and typed equality / normalisation helpers.
"""

import json
import struct

# ---------------------------------------------------------------------------
# typed equality


def trepr(x):
    """
    Canonical typed representation: distinguishes True/1/1.0, compares floats
    bit for bit, lists positionally, dicts by key (order-insensitive).
    """
    t = type(x)
    if x is None:
        return "n"
    if t is bool:
        return "b1" if x else "b0"
    if t is int:
        return "i%d" % x
    if t is float:
        return "f%016x" % struct.unpack("<Q", struct.pack("<d", x))[0]
    if t is str:
        return "s%d:%s" % (len(x), x)
    if t is bytes:
        return "y%r" % x
    if t is list:
        return "[" + ",".join(trepr(v) for v in x) + "]"
    if t is tuple:
        return "(" + ",".join(trepr(v) for v in x) + ")"
    if t is dict:
        return "{" + ",".join(sorted(trepr(k) + "=" + trepr(v) for k, v in x.items())) + "}"
    if t in (set, frozenset):
        return t.__name__ + "<" + ",".join(sorted(trepr(v) for v in x)) + ">"
    return "o:%s:%r" % (t.__module__ + "." + t.__qualname__, x)


def teq(a, b):
    return trepr(a) == trepr(b)


def jn(x):
    """What a trip through JSON does to a value: tuples become lists."""
    if isinstance(x, (list, tuple)):
        return [jn(v) for v in x]
    if isinstance(x, dict):
        return {k: jn(v) for k, v in x.items()}
    return x


def cn(x):
    """jsonclass container normalisation: tuple/set/frozenset -> list.
    Sets are compared as sorted lists of canonical forms (see cn_eq)."""
    if isinstance(x, (list, tuple)):
        return [cn(v) for v in x]
    if isinstance(x, (set, frozenset)):
        return ("<bag>", sorted((trepr(cn(v)) for v in x)))
    if isinstance(x, dict):
        return {k: cn(v) for k, v in x.items()}
    return x


def cn_eq(orig, loaded):
    """loaded (lists/dicts/primitives) equals orig up to container normalisation."""
    if isinstance(orig, (list, tuple)):
        return (type(loaded) is list and len(loaded) == len(orig)
                and all(cn_eq(o, l) for o, l in zip(orig, loaded)))
    if isinstance(orig, (set, frozenset)):
        if type(loaded) is not list or len(loaded) != len(orig):
            return False
        # orig elements are hashable: primitives / tuples / frozensets
        a = sorted(trepr(cn_plain(v)) for v in orig)
        b = sorted(trepr(v) for v in loaded)
        return a == b
    if isinstance(orig, dict):
        return (type(loaded) is dict and len(loaded) == len(orig)
                and all(k in loaded and type(k) in [type(k2) for k2 in loaded if k2 == k]
                        and cn_eq(v, loaded[k]) for k, v in orig.items()))
    return teq(orig, loaded)


def cn_plain(x):
    """tuple/set/frozenset -> list, order of sets = iteration order."""
    if isinstance(x, (list, tuple, set, frozenset)):
        return [cn_plain(v) for v in x]
    if isinstance(x, dict):
        return {k: cn_plain(v) for k, v in x.items()}
    return x


# ---------------------------------------------------------------------------
# JSON values

FALSY = [None, False, 0, 0.0, "", [], {}]

INTS = [0, 1, -1, 2, 7, 255, -256, 2 ** 31, -2 ** 31, 2 ** 31 - 1, 2 ** 53, -2 ** 53,
        2 ** 53 - 1, 10 ** 15]
FLOATS = [0.0, -0.0, 1.0, -1.5, 0.1, 1e-310, 5e-324, 1e308, -1e308, 1.7976931348623157e308,
          3.141592653589793, 1e16, 2.5e-5, 123456789.125]
STRINGS = ["", "a", "abc", "0", "null", "true", "id", "method", "é", "ßü",
           "中文", "\U0001F600", "a\"b", "back\\slash", "new\nline", "tab\t", "\x00",
           "\x1f", " ", " ", "  lead", "{}", "[]", "__jsonclass__x", "café \U0001F37A"]


def rand_str(rng, maxlen=12):
    r = rng.random()
    if r < 0.35:
        return rng.choice(STRINGS)
    n = rng.randint(0, maxlen)
    kind = rng.random()
    out = []
    for _ in range(n):
        if kind < 0.5:
            out.append(chr(rng.randint(32, 126)))
        else:
            c = rng.random()
            if c < 0.5:
                out.append(chr(rng.randint(32, 126)))
            elif c < 0.6:
                out.append(chr(rng.randint(0, 31)))
            elif c < 0.8:
                out.append(chr(rng.randint(0x80, 0x7ff)))
            elif c < 0.93:
                cp = rng.randint(0x800, 0xffff)
                if 0xd800 <= cp <= 0xdfff:
                    cp = 0x4e2d
                out.append(chr(cp))
            else:
                out.append(chr(rng.randint(0x10000, 0x10ffff)))
    return "".join(out)


def rand_int(rng):
    r = rng.random()
    if r < 0.4:
        return rng.choice(INTS)
    if r < 0.7:
        return rng.randint(-100, 100)
    return rng.randint(-2 ** 53, 2 ** 53)


def rand_float(rng):
    r = rng.random()
    if r < 0.4:
        return rng.choice(FLOATS)
    if r < 0.7:
        return rng.uniform(-1000, 1000)
    return rng.uniform(-1, 1) * 10.0 ** rng.randint(-300, 300)


def rand_prim(rng):
    r = rng.random()
    if r < 0.15:
        return None
    if r < 0.3:
        return rng.random() < 0.5
    if r < 0.55:
        return rand_int(rng)
    if r < 0.75:
        return rand_float(rng)
    return rand_str(rng)


def json_value(rng, depth=3, width=4, falsy_bias=0.15):
    """A JSON-representable value: nested lists / string-keyed dicts of primitives."""
    if rng.random() < falsy_bias:
        v = rng.choice(FALSY)
        return type(v)() if isinstance(v, (list, dict)) else v
    if depth <= 0 or rng.random() < 0.45:
        return rand_prim(rng)
    if rng.random() < 0.5:
        return [json_value(rng, depth - 1, width, falsy_bias) for _ in range(rng.randint(0, width))]
    return {rand_key(rng): json_value(rng, depth - 1, width, falsy_bias)
            for _ in range(rng.randint(0, width))}


def rand_key(rng):
    k = rand_str(rng, 8)
    # '__jsonclass__' as a key would be a class descriptor: outside plain JSON payloads
    return "k" if k == "__jsonclass__" else k


def json_text_ok(v):
    """True when v survives json.dumps/json.loads typed-identically (finite floats...)."""
    try:
        return teq(json.loads(json.dumps(v)), jn(v))
    except (ValueError, TypeError, RecursionError):
        return False


IDS = [None, "", 0, -1, 1, 1.5, -0.0, 0.0, "a", "id-1", "0", True, False, [], [1], {}, {"a": 1},
       2 ** 53, "é", [None], {"id": None},
       # integers beyond what a float can hold (exact in JSON and in Python; any detour through float overflows)
       2 ** 1024, -(2 ** 1100), 10 ** 400, [2 ** 1024], {"n": -(10 ** 320)}]


# ---------------------------------------------------------------------------
# the same data held in subclasses of the built-in containers (lists, tuples and dicts by isinstance)

import collections as _collections


class ListSub(list):
    """A user subclass of list"""


class DictSub(dict):
    """A user subclass of dict"""


class TupleSub(tuple):
    """A user subclass of tuple"""


_NT_CACHE = {}


def _namedtuple(n):
    if n not in _NT_CACHE:
        _NT_CACHE[n] = _collections.namedtuple("NT%d" % n, ["f%d" % i for i in range(n)])
    return _NT_CACHE[n]


def subclassed(rng, x, p=0.5):
    """x with each list/tuple/dict replaced, with probability p, by an equal instance of a subclass."""
    if isinstance(x, (list, tuple)):
        items = [subclassed(rng, v, p) for v in x]
        if rng.random() >= p:
            return type(x)(items) if type(x) in (list, tuple) else items
        k = rng.randrange(4)
        if k == 0:
            return ListSub(items)
        if k == 1:
            return TupleSub(items)
        if k == 2 and len(items) <= 6:
            return _namedtuple(len(items))(*items)
        return tuple(items)
    if isinstance(x, dict):
        items = [(k, subclassed(rng, v, p)) for k, v in x.items()]
        if rng.random() >= p:
            return dict(items)
        k = rng.randrange(3)
        if k == 0:
            return _collections.OrderedDict(items)
        if k == 1:
            d = _collections.defaultdict(list)
            d.update(items)
            return d
        return DictSub(items)
    return x
