"""
FutureResult harness (C16): 2-4 threads per future - one executes (directly, or
a real pool worker), one registers callbacks, others observe done()/result() -
all logged at the boundary into one History; an offline checker decides the
completion protocol.
"""

import gc
import threading
import time

from vf import poolmon, steady
from vf.probes import EXC_CLASSES, BASE_EXC_CLASSES

TASK_EXC = EXC_CLASSES + BASE_EXC_CLASSES


class Scenario(object):
    """JSON-able description:
    {mode: direct|pool, task: {kind: ret|exc, exc: idx, falsy: idx|None, body_ms},
     regs: [{delay_ms, cb: ok|raises|arity0|arity1, }], observers: [[("done",)|("result", ms)|("sleep", ms) ...]]}
    """


def gen_scenario(rng):
    sc = {"mode": "direct" if rng.random() < 0.7 else "pool",
          "task": {"kind": "ret" if rng.random() < 0.6 else "exc", "exc": rng.randrange(len(TASK_EXC)),
                   "falsy": rng.choice([None, None, 0, 1, 2, 3, 4]), "body_ms": rng.choice([0, 0, 0.2, 1, 3])},
          "regs": [], "observers": [], "exec_delay_ms": rng.choice([0, 0, 0.3, 1, 2])}
    for _ in range(rng.choice([0, 1, 1, 2, 2, 3])):
        sc["regs"].append({"delay_ms": rng.choice([0, 0, 0.1, 0.5, 1, 2, 4]),
                           "cb": rng.choice(["ok", "ok", "ok", "raises", "arity0", "arity1", "raises-base"]),
                           "shape": rng.choice(["function", "function", "partial", "nameless", "temp-method",
                                                "kept-method"])})
    sc["regs2"] = []
    if rng.random() < 0.3:
        # a second thread registering callbacks on the same future
        for _ in range(rng.choice([1, 1, 2])):
            sc["regs2"].append({"delay_ms": rng.choice([0, 0, 0.1, 0.5, 1, 2, 4]),
                                "cb": rng.choice(["ok", "ok", "raises"]),
                                "shape": rng.choice(["function", "partial", "kept-method"])})
    for _ in range(rng.choice([0, 1, 1, 2])):
        ops = []
        for _ in range(rng.randint(1, 4)):
            r = rng.random()
            if r < 0.4:
                ops.append(["done"])
            elif r < 0.85:
                ops.append(["result", rng.choice([0, 0.2, 1, 5, 2000])])
            else:
                ops.append(["sleep", rng.choice([0.1, 1, 3])])
        sc["observers"].append(ops)
    return sc


FALSY = [None, 0, False, "", []]


class _Listener(object):
    def __init__(self, fn):
        self.fn = fn

    def on_done(self, *args, **kwargs):
        return self.fn(*args, **kwargs)


class _Nameless(object):
    """A callable object without a __name__."""

    def __init__(self, fn):
        self.fn = fn

    def __call__(self, *args, **kwargs):
        return self.fn(*args, **kwargs)


class FutureRun(object):
    _serial = [0]

    def __init__(self, sc):
        self.sc = sc
        self.h = poolmon.History()
        FutureRun._serial[0] += 1
        self.name = "vfpoolF%d" % FutureRun._serial[0]
        t = sc["task"]
        self.ret = FALSY[t["falsy"]] if t["falsy"] is not None else object()
        self.exc = None
        if t["kind"] == "exc":
            cls = TASK_EXC[t["exc"]]
            self.exc = cls("task failed")
        self.args = (object(),)
        self.kwargs = {"k": object()}
        self.extras = [object() for _ in sc["regs"] + sc.get("regs2", [])]
        self.frozen = None

    # the task body
    def task(self, *args, **kwargs):
        h = self.h
        ok = len(args) == 1 and args[0] is self.args[0] and set(kwargs) == {"k"} and kwargs["k"] is self.kwargs["k"]
        h.ev("body_start", args_ok=ok)
        ms = self.sc["task"]["body_ms"]
        if ms:
            time.sleep(ms / 1000.0)
        h.ev("body_end")
        if self.exc is not None:
            raise self.exc
        return self.ret

    task.__name__ = "future_task"

    def make_cb(self, i, kind):
        h = self.h
        run = self

        def check(result, exception, extra):
            good = (extra is run.extras[i]
                    and ((run.exc is None and result is run.ret and exception is None)
                         or (run.exc is not None and exception is run.exc and result is None)))
            h.ev("cb", reg=i, args_ok=good)
        if kind == "ok":
            def cb(result, exception, extra):
                check(result, exception, extra)
        elif kind == "raises":
            def cb(result, exception, extra):
                check(result, exception, extra)
                raise RuntimeError("callback %d fails" % i)
        elif kind == "raises-base":
            def cb(result, exception, extra):
                check(result, exception, extra)
                raise SystemExit("callback %d calls sys.exit()" % i)
        elif kind == "arity0":
            def cb():
                h.ev("cb", reg=i, args_ok=False)
        else:
            def cb(only):
                h.ev("cb", reg=i, args_ok=False)
        return cb

    def executor(self, fut):
        h = self.h
        d = self.sc.get("exec_delay_ms", 0)
        if d:
            time.sleep(d / 1000.0)
        c = h.ev("exec_call")
        try:
            fut.execute(self.task, self.args, self.kwargs)
            h.ev("exec_ret", call=c, out="returned")
        except BaseException as ex:  # noqa
            h.ev("exec_ret", call=c, out="own-exc" if ex is self.exc else "foreign-exc:" + type(ex).__name__)

    def registrar(self, fut, regs=None, base=0):
        h = self.h
        for i, reg in enumerate(self.sc["regs"] if regs is None else regs, base):
            if reg["delay_ms"]:
                time.sleep(reg["delay_ms"] / 1000.0)
            cb = self.make_cb(i, reg["cb"])
            shape = reg.get("shape", "function")
            if shape == "partial":
                import functools
                cb = functools.partial(cb)
            elif shape == "nameless":
                cb = _Nameless(cb)
            elif shape == "temp-method":
                # a bound method of an object nobody else references: future.set_callback(Listener().on_done, x)
                cb = _Listener(cb).on_done
                gc.collect()
            elif shape == "kept-method":
                self.keep = getattr(self, "keep", [])
                self.keep.append(_Listener(cb))
                cb = self.keep[-1].on_done
            c = h.ev("reg_call", reg=i, cb=reg["cb"])
            try:
                fut.set_callback(cb, self.extras[i])
                h.ev("reg_ret", reg=i, call=c, out="returned")
            except BaseException as ex:  # noqa
                h.ev("reg_ret", reg=i, call=c, out="raised:" + type(ex).__name__)

    def observe(self, fut, op):
        h = self.h
        if op[0] == "done":
            c = h.ev("done_call")
            try:
                v = fut.done()
                h.ev("done_ret", call=c, value=bool(v), raw_bool=isinstance(v, bool))
            except BaseException as ex:  # noqa
                h.ev("done_ret", call=c, value=None, raised=type(ex).__name__)
        elif op[0] == "result":
            c = h.ev("result_call", timeout=op[1])
            try:
                v = fut.result(op[1] / 1000.0)
                out = "own-value" if (v is self.ret and self.exc is None) else "foreign-value"
            except BaseException as ex:  # noqa
                if ex is self.exc:
                    out = "own-exc"
                elif isinstance(ex, OSError):
                    out = "timeout"
                else:
                    out = "foreign-exc:" + type(ex).__name__
            h.ev("result_ret", call=c, out=out)
        else:
            time.sleep(op[1] / 1000.0)

    def observer(self, fut, ops):
        for op in ops:
            self.observe(fut, op)

    def execute(self):
        import jsonrpclib.threadpool as tp
        poolmon.set_current(self.h)
        sc = self.sc
        h = self.h
        pool = None
        threads = []
        if sc["mode"] == "pool":
            pool = tp.ThreadPool(1, 0, timeout=0.01, logname=self.name)
            pool.start()
            fut = pool.enqueue(self.task, *self.args, **self.kwargs)
            h.ev("enqueued")
        else:
            fut = tp.FutureResult()
            threads.append(threading.Thread(target=self.executor, args=(fut,), name="vf-executor"))
        threads.append(threading.Thread(target=self.registrar, args=(fut,), name="vf-registrar"))
        if sc.get("regs2"):
            threads.append(threading.Thread(target=self.registrar, args=(fut, sc["regs2"], len(sc["regs"])),
                                            name="vf-registrar2"))
        for i, ops in enumerate(sc["observers"]):
            threads.append(threading.Thread(target=self.observer, args=(fut, ops), name="vf-observer%d" % i))
        for t in threads:
            t.daemon = True
            t.start()
        ok = self._wait(lambda: not any(t.is_alive() for t in threads), "scenario threads")
        if ok and sc["mode"] == "pool":
            ok = self._wait(lambda: any(e[1] == "task_done" for e in h.snapshot()), "pool task completion")
        h.ev("all_returned", ok=ok)
        if ok:
            # final observations: consistent and immediate
            for _ in range(2):
                self.observe(fut, ["done"])
                self.observe(fut, ["result", 5000])
            if pool is not None:
                # the worker must still take the next task
                nxt = threading.Event()
                pool.enqueue(nxt.set)
                took = self._wait(nxt.is_set, "next task after callback")
                h.ev("next_task", ran=took)
        if pool is not None:
            st = threading.Thread(target=pool.stop, name="vf-stopper")
            st.daemon = True
            st.start()
            self._wait(lambda: not st.is_alive(), "pool stop")
        poolmon.set_current(None)
        return h.snapshot()

    def _wait(self, cond, what, hard=60.0):
        t0 = time.monotonic()
        still = steady.Stillness(3.0, 500, self.name)
        while not cond():
            time.sleep(0.001)
            now = time.monotonic()
            verdict = still.look(self.h.useful)
            if verdict is not None:
                self.frozen = {"what": what, "stacks": verdict["stacks"]}
                return False
            if now - t0 > hard:
                self.frozen = {"what": what, "inconclusive": True}
                return False
        return True


def check(events, sc):
    """Offline checker. Returns [(key, detail)]."""
    out = []
    E = X = None
    regs = {}
    cbs = {}
    base_cb = any(r["cb"] == "raises-base" for r in sc["regs"] + sc.get("regs2", []))
    for seq, kind, name, f in events:
        if kind == "body_end":
            E = seq
        elif kind == "exec_ret":
            X = seq
            # (a callback that calls sys.exit() may end the thread that runs it: what must hold is that the stored
            # outcome and a pool worker's progress are unaffected)
            if f["out"].startswith("foreign-exc") and not base_cb:
                out.append(("execute-raised-foreign-exception", {"out": f["out"]}))
        elif kind == "task_done" and X is None:
            X = seq   # pool mode: upper bound of the return of execute
        elif kind == "reg_call":
            regs[f["reg"]] = {"call": seq, "ret": None, "cb": f["cb"]}
        elif kind == "reg_ret":
            regs[f["reg"]]["ret"] = seq
            # (a callback calling sys.exit() ends the thread that happens to invoke it, which may be another registrar)
            if f["out"] != "returned" and not base_cb:
                out.append(("callback-exception-escaped-set_callback", {"reg": f["reg"], "out": f["out"]}))
        elif kind == "cb":
            cbs.setdefault(f["reg"], []).append((seq, f["args_ok"]))
    complete = any(k == "all_returned" and f["ok"] for _, k, _, f in events)
    pool_mode = sc["mode"] == "pool"
    # in pool mode X is only bounded: E < X_true < task_done
    for i, r in sorted(regs.items()):
        inv = cbs.get(i, [])
        judged_cb = r["cb"] in ("ok", "raises", "raises-base")
        if len(inv) > 1:
            out.append(("callback-invoked-twice", {"reg": i, "invocations": [s for s, _ in inv], "E": E, "X": X,
                                                    "reg_call": r["call"], "reg_ret": r["ret"]}))
            continue
        if not judged_cb:
            continue   # wrong arity: the body never runs; containment is judged elsewhere
        if inv and not inv[0][1]:
            out.append(("callback-arguments-wrong", {"reg": i}))
        if not complete or r["ret"] is None or X is None or E is None:
            continue
        if r["call"] > X:
            # registered after completion was fully published: invoked exactly once, within set_callback
            if len(inv) != 1:
                out.append(("late-registration-not-invoked", {"reg": i, "count": len(inv)}))
            elif not (r["call"] < inv[0][0] < r["ret"]):
                out.append(("late-registration-invoked-outside-set_callback", {"reg": i}))
            continue
        # the future has ONE callback slot until it completes: a registration may legitimately be replaced by another
        # one (of the same or of another thread) that began before completion was published and could have been
        # stored after it
        superseded_maybe = any(o is not r and o["call"] < X and (o["ret"] is None or o["ret"] > r["call"])
                               for o in regs.values())
        if superseded_maybe:
            continue  # 0 or 1 invocations are both legitimate
        if len(inv) != 1:
            out.append(("registration-never-invoked", {"reg": i, "E": E, "X": X, "reg_call": r["call"],
                                                       "reg_ret": r["ret"], "pool_mode": pool_mode}))
    # observations
    seen_vals = set()
    for seq, kind, name, f in events:
        if kind == "done_ret":
            if f.get("raised"):
                out.append(("done-raised", {"raised": f["raised"]}))
                continue
            call = f["call"]
            if f["value"] and (E is None or seq < E):
                out.append(("done-true-before-task-finished", {"at": seq, "E": E}))
            if not f["value"] and X is not None and call > X:
                out.append(("done-false-after-completion", {"at": seq, "X": X}))
        elif kind == "result_ret":
            call = f["call"]
            o = f["out"]
            if o.startswith("foreign"):
                out.append(("result-not-faithful:" + o.split(":")[0], {"out": o}))
            elif o in ("own-value", "own-exc"):
                if E is None or seq < E:
                    out.append(("result-returned-before-task-finished", {"at": seq, "E": E}))
                seen_vals.add(o)
            elif o == "timeout":
                if X is not None and call > X:
                    out.append(("result-timeout-after-completion", {"call": call, "X": X}))
    if len(seen_vals) > 1:
        out.append(("result-observations-disagree", {"seen": sorted(seen_vals)}))
    # once result() has delivered the outcome to anybody, the future is done for everybody
    delivered = [seq for seq, kind, name, f in events if kind == "result_ret" and f["out"] in ("own-value", "own-exc")]
    if delivered:
        first = min(delivered)
        for seq, kind, name, f in events:
            if kind == "done_ret" and not f.get("raised") and f["call"] > first and not f["value"]:
                out.append(("done-false-after-result-was-delivered", {"delivered_at": first, "done_call": f["call"]}))
                break
            if kind == "result_ret" and f["call"] > first and f["out"] == "timeout":
                out.append(("result-timeout-after-result-was-delivered", {"delivered_at": first, "call": f["call"]}))
                break
    for seq, kind, name, f in events:
        if kind == "next_task" and not f["ran"]:
            out.append(("worker-stopped-after-callback", {}))
        if kind == "body_start" and not f["args_ok"]:
            out.append(("task-arguments-altered", {}))
    return out
