"""
Guards: Config write-trap and field snapshots (C13); import shim, audit hook
and canary modules (C08).
"""

import builtins
import os
import sys
import threading


# ---------------------------------------------------------------------------
# Config write trap: sees transient writes (set 1.0, restore) that snapshots miss

class ConfigTrap(object):
    def __init__(self):
        import jsonrpclib.config as cfgmod
        self.cfgmod = cfgmod
        self.watched = {}
        self.writes = []
        self.lock = threading.Lock()
        self.installed = False

    def install(self):
        trap = self
        cls = self.cfgmod.Config
        self._had = "__setattr__" in cls.__dict__
        self._orig = cls.__dict__.get("__setattr__")
        base_set = self._orig or object.__setattr__

        def __setattr__(obj, name, value):
            label = trap.watched.get(id(obj))
            if label is not None:
                with trap.lock:
                    trap.writes.append((label, name, repr(value)[:80], threading.current_thread().name))
            base_set(obj, name, value)
        cls.__setattr__ = __setattr__
        self.installed = True

    def uninstall(self):
        cls = self.cfgmod.Config
        if self._had:
            cls.__setattr__ = self._orig
        else:
            del cls.__setattr__
        self.installed = False

    def watch(self, obj, label):
        self.watched[id(obj)] = label

    def unwatch(self, obj):
        self.watched.pop(id(obj), None)

    def take(self):
        with self.lock:
            out, self.writes = self.writes, []
        return out


CONFIG_FIELDS = ("version", "use_jsonclass", "content_type", "user_agent", "serialize_method", "ignore_attribute")


def config_snapshot(cfg):
    snap = {f: repr(getattr(cfg, f, "<missing>")) for f in CONFIG_FIELDS}
    snap["classes"] = sorted((repr(k), id(v)) for k, v in cfg.classes.items())
    snap["classes_id"] = id(cfg.classes)
    snap["serialize_handlers"] = sorted((repr(k), id(v)) for k, v in cfg.serialize_handlers.items())
    snap["handlers_id"] = id(cfg.serialize_handlers)
    snap["extra_attrs"] = sorted(set(vars(cfg)) - set(CONFIG_FIELDS) - {"classes", "serialize_handlers"})
    return snap


def snapshot_diff(a, b):
    return sorted(k for k in set(a) | set(b) if a.get(k) != b.get(k))
