"""
Guards: Config write-trap and field snapshots (C13); import shim, audit hook
and canary modules (C08).
"""

import builtins
import os
import sys
import threading


# ---------------------------------------------------------------------------
# Config write trap: sees transient writes (set 1.0, restore) that snapshots miss

class ConfigTrap(object):
    def __init__(self):
        import jsonrpclib.config as cfgmod
        self.cfgmod = cfgmod
        self.watched = {}
        self.writes = []
        self.lock = threading.Lock()
        self.installed = False

    def install(self):
        trap = self
        cls = self.cfgmod.Config
        self._had = "__setattr__" in cls.__dict__
        self._orig = cls.__dict__.get("__setattr__")
        base_set = self._orig or object.__setattr__

        def __setattr__(obj, name, value):
            label = trap.watched.get(id(obj))
            if label is not None:
                with trap.lock:
                    trap.writes.append((label, name, repr(value)[:80], threading.current_thread().name))
            base_set(obj, name, value)
        cls.__setattr__ = __setattr__
        self.installed = True

    def uninstall(self):
        cls = self.cfgmod.Config
        if self._had:
            cls.__setattr__ = self._orig
        else:
            del cls.__setattr__
        self.installed = False

    def watch(self, obj, label):
        self.watched[id(obj)] = label

    def unwatch(self, obj):
        self.watched.pop(id(obj), None)

    def take(self):
        with self.lock:
            out, self.writes = self.writes, []
        return out


CONFIG_FIELDS = ("version", "use_jsonclass", "content_type", "user_agent", "serialize_method", "ignore_attribute")


def config_snapshot(cfg):
    snap = {f: repr(getattr(cfg, f, "<missing>")) for f in CONFIG_FIELDS}
    snap["classes"] = sorted((repr(k), id(v)) for k, v in cfg.classes.items())
    snap["classes_id"] = id(cfg.classes)
    snap["serialize_handlers"] = sorted((repr(k), id(v)) for k, v in cfg.serialize_handlers.items())
    snap["handlers_id"] = id(cfg.serialize_handlers)
    snap["extra_attrs"] = sorted(set(vars(cfg)) - set(CONFIG_FIELDS) - {"classes", "serialize_handlers"})
    return snap


def snapshot_diff(a, b):
    return sorted(k for k in set(a) | set(b) if a.get(k) != b.get(k))


# ---------------------------------------------------------------------------
# import / side-effect guards (C08)

class ImportGuard(object):
    """
    Records, while armed, every __import__ call (requested name, caller module,
    fromlist) through a shim over builtins.__import__, plus audit events
    (import of uncached modules, open, exec, compile, os.system,
    subprocess.Popen, socket.connect) raised on the arming thread.
    """
    AUDITED = ("import", "open", "exec", "compile", "os.system", "subprocess.Popen", "socket.connect",
               "socket.bind", "os.exec", "os.spawn", "os.posix_spawn", "ctypes.dlopen")
    _hook_installed = [False]
    _active = []

    def __init__(self):
        self.imports = []
        self.audit = []
        self.armed = False
        self.thread = None
        self._orig = None

    def install(self):
        guard = self
        self._orig = builtins.__import__
        orig = self._orig

        def __import__(name, globals=None, locals=None, fromlist=(), level=0):
            if guard.armed and threading.get_ident() == guard.thread:
                caller = (globals or {}).get("__name__", "?")
                guard.imports.append((name, caller, tuple(fromlist or ()), level))
            return orig(name, globals, locals, fromlist, level)
        builtins.__import__ = __import__
        ImportGuard._active.append(self)
        if not ImportGuard._hook_installed[0]:
            ImportGuard._hook_installed[0] = True

            def hook(event, args):
                for g in ImportGuard._active:
                    if g.armed and event in ImportGuard.AUDITED and threading.get_ident() == g.thread:
                        g.audit.append((event, repr(args[:1])[:120]))
            sys.addaudithook(hook)

    def uninstall(self):
        builtins.__import__ = self._orig
        if self in ImportGuard._active:
            ImportGuard._active.remove(self)

    def arm(self):
        self.imports = []
        self.audit = []
        self.thread = threading.get_ident()
        self.modules_before = set(sys.modules)
        self.armed = True

    def disarm(self):
        self.armed = False
        self.new_modules = sorted(set(sys.modules) - self.modules_before)
        return self.imports, self.audit, self.new_modules


CANARY_SRC = '''
import builtins
_state = builtins.__dict__.setdefault("_vf_canary_state", {"imports": [], "constructions": []})
_state["imports"].append(__name__)


class Boom(object):
    def __new__(cls, *args, **kwargs):
        _state["constructions"].append((__name__, "Boom.__new__", len(args), sorted(kwargs)))
        return object.__new__(cls)

    def __init__(self, *args, **kwargs):
        _state["constructions"].append((__name__, "Boom.__init__", len(args), sorted(kwargs)))


def factory(*args, **kwargs):
    _state["constructions"].append((__name__, "factory", len(args), sorted(kwargs)))
    return 1
'''


class Canaries(object):
    """Canary modules in a scratch directory on sys.path: importing them or
    constructing their classes leaves a trace."""

    def __init__(self, names=("vfcanarymod", "vfcanarypkg")):
        import tempfile
        self.dir = tempfile.mkdtemp(prefix="vfcanary-")
        self.names = list(names)
        for n in self.names:
            with open(os.path.join(self.dir, n + ".py"), "w") as fh:
                fh.write(CANARY_SRC)
        sys.path.insert(0, self.dir)
        self.state = builtins.__dict__.setdefault("_vf_canary_state", {"imports": [], "constructions": []})

    def reset(self):
        del self.state["imports"][:]
        del self.state["constructions"][:]
        for n in self.names:
            sys.modules.pop(n, None)

    def trace(self):
        return list(self.state["imports"]), list(self.state["constructions"])

    def close(self):
        import shutil
        if self.dir in sys.path:
            sys.path.remove(self.dir)
        for n in self.names:
            sys.modules.pop(n, None)
        shutil.rmtree(self.dir, ignore_errors=True)
