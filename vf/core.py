"""
Core of the runtime-monitoring framework: tiers, seeds, shard contexts,
three-valued verdicts, evidence / replay writers, known-finding classifier.

Stdlib only.  The library under test is imported from $VERIF_REPO (default
/repo), which the `check` launcher puts first on PYTHONPATH of every shard.
"""

import array
import collections
import hashlib
import json
import os
import random
import sys
import time
import traceback

VERIF = os.path.dirname(os.path.dirname(os.path.abspath(__file__)))
REPO = os.environ.get("VERIF_REPO", "/repo")
GUARD = "JSONRPCLIB_VERIF"

EXIT_HELD, EXIT_VIOLATION, EXIT_INCONCLUSIVE = 0, 1, 2

MAX_WITNESSES_PER_KEY = 3
MAX_SAMPLES = 6


def jsonable(obj, depth=0):
    """Best-effort conversion of anything to something json.dumps accepts."""
    if depth > 12:
        return "<deep>"
    if obj is None or isinstance(obj, (bool, int, str)):
        if isinstance(obj, int) and not isinstance(obj, bool) and abs(obj) > 2 ** 63:
            return "int:%d" % obj
        if isinstance(obj, str):
            try:
                obj.encode("utf-8")
            except UnicodeEncodeError:
                return "str!:" + repr(obj)
            if len(obj) > 6000:
                return obj[:200] + "...<%d chars>..." % len(obj) + obj[-50:]
        return obj
    if isinstance(obj, float):
        if obj != obj or obj in (float("inf"), float("-inf")):
            return "float:%r" % obj
        return obj
    if isinstance(obj, bytes):
        return "bytes:" + repr(obj[:200]) + ("...<%d>" % len(obj) if len(obj) > 200 else "")
    if isinstance(obj, dict):
        out = {}
        for n, (k, v) in enumerate(obj.items()):
            if n >= 60:
                out["..."] = "<%d items>" % len(obj)
                break
            out[k if isinstance(k, str) else "key:%r" % (k,)] = jsonable(v, depth + 1)
        return out
    if isinstance(obj, (list, tuple, set, frozenset)):
        items = list(obj)
        tag = [] if isinstance(obj, list) else ["<%s>" % type(obj).__name__]
        out = tag + [jsonable(v, depth + 1) for v in items[:60]]
        if len(items) > 60:
            out.append("...<%d items>" % len(items))
        return out
    if isinstance(obj, BaseException):
        return "exc:%s(%s)" % (type(obj).__name__, ", ".join(repr(a)[:200] for a in obj.args))
    return "obj:" + repr(obj)[:200]


def chash(obj):
    """64-bit hash of a canonical description of a case."""
    if not isinstance(obj, (str, bytes)):
        obj = repr(obj)
    if isinstance(obj, str):
        obj = obj.encode("utf-8", "surrogatepass")
    return int.from_bytes(hashlib.blake2b(obj, digest_size=8).digest(), "big")


class Ctx(object):
    """
    What one shard (or a replay) accumulates.  Everything here is measured by
    the run: evaluations, hashes of distinct non-trivial cases, counters of
    what the monitors saw, covered cells, samples, violations.
    """

    def __init__(self, prop, tier, seed, shard=0, nshards=1, replay=None):
        self.prop = prop
        self.tier = tier
        self.seed = seed
        self.shard = shard
        self.nshards = nshards
        self.replay = replay
        self.rng = random.Random("%s/%s/%d/%d" % (prop, tier, seed, shard))
        self.evaluations = 0
        self.hashes = set()
        self.counters = collections.Counter()
        self.cells = set()
        self.samples = []
        self.violations = []  # list of dict(key, case, detail)
        self._vio_per_key = collections.Counter()
        self.inconclusive = []
        self.exhaustive = {}
        self.t0 = time.time()
        self.deadline = None

    @property
    def quick(self):
        return self.tier == "quick"

    def pick(self, quick, thorough):
        return quick if self.tier == "quick" else thorough

    def mine(self, index):
        """Round-robin partition of an enumerated space over the shards."""
        return index % self.nshards == self.shard

    def case(self, canon=None, nontrivial=True, n=1):
        """Registers one executed case that reached the deciding monitor."""
        self.evaluations += n
        if nontrivial and canon is not None:
            self.hashes.add(chash(canon))

    def count(self, name, n=1):
        self.counters[name] += n

    def cell(self, *parts):
        self.cells.add("/".join(str(p) for p in parts))

    def sample(self, obj, cap=MAX_SAMPLES):
        if len(self.samples) < cap:
            self.samples.append(jsonable(obj))

    def violate(self, key, case, detail=""):
        """
        Records a violation. `key` is the mechanism key (shape of the witness,
        never random values); `case` is what --replay needs to re-execute it.
        """
        self.counters["violations_observed"] += 1
        self._vio_per_key[key] += 1
        if self._vio_per_key[key] <= MAX_WITNESSES_PER_KEY:
            self.violations.append(
                {"key": key, "case": jsonable(case), "detail": jsonable(detail),
                 "shard": self.shard, "seed": self.seed, "tier": self.tier}
            )

    def unsure(self, reason):
        if reason not in self.inconclusive:
            self.inconclusive.append(reason)

    def checkpoint(self):
        """Writes what was observed so far: if the shard dies later (a hang that holds the GIL), the launcher still
        reads these observations (and reports the death of the shard as well)."""
        prefix = getattr(self, "checkpoint_prefix", None)
        if prefix:
            write_shard_result(self, prefix)

    def time_left(self):
        if self.deadline is None:
            return 1e9
        return self.deadline - time.time()

    def result(self):
        return {
            "prop": self.prop, "shard": self.shard,
            "evaluations": self.evaluations,
            "counters": dict(self.counters),
            "cells": sorted(self.cells),
            "samples": self.samples,
            "violations": self.violations,
            "vio_per_key": dict(self._vio_per_key),
            "inconclusive": self.inconclusive,
            "exhaustive": self.exhaustive,
            "wall_s": round(time.time() - self.t0, 3),
        }


def write_shard_result(ctx, out_prefix):
    with open(out_prefix + ".hashes", "wb") as fh:
        array.array("Q", sorted(ctx.hashes)).tofile(fh)
    with open(out_prefix + ".json", "w") as fh:
        json.dump(ctx.result(), fh)


def read_shard_result(out_prefix):
    with open(out_prefix + ".json") as fh:
        res = json.load(fh)
    arr = array.array("Q")
    with open(out_prefix + ".hashes", "rb") as fh:
        data = fh.read()
    arr.frombytes(data)
    return res, arr


# ---------------------------------------------------------------------------
# Known findings: a committed text file, never written at run time.
#   KNOWN-FINDING: property=C05 key=<mechanism-key> <what fails>
#   fixed: property=C06 <commit> key=<mechanism-key> <what failed>
# Only KNOWN-FINDING lines suppress; "fixed:" lines suppress nothing.

def load_known_findings(path=None):
    path = path or os.path.join(VERIF, "known_findings.txt")
    known = {}
    fixed = {}
    if not os.path.exists(path):
        return known, fixed
    with open(path) as fh:
        for line in fh:
            line = line.strip()
            if not line or line.startswith("#"):
                continue
            toks = line.split()
            prop = key = None
            for tok in toks:
                if tok.startswith("property="):
                    prop = tok[len("property="):]
                elif tok.startswith("key="):
                    key = tok[len("key="):]
            if prop is None or key is None:
                continue
            if line.startswith("KNOWN-FINDING:"):
                known[(prop, key)] = line
            elif line.startswith("fixed:"):
                fixed[(prop, key)] = line
    return known, fixed


def format_exc(exc):
    return "".join(traceback.format_exception(type(exc), exc, exc.__traceback__))[-2000:]


def quiet_logging():
    """jsonrpclib logs every fault; keep stderr readable and dispatch fast."""
    import logging
    import os
    if os.environ.get("VERIF_LOGGING") == "debug":
        # DEBUG is effective for the library's loggers (isEnabledFor / debug branches run), nothing is written
        logging.getLogger().addHandler(logging.NullHandler())
        logging.getLogger("jsonrpclib").setLevel(logging.DEBUG)
        return
    logging.disable(logging.CRITICAL)
