"""
Load-robust "nothing moves any more" detection.

A frozen state (dead-lock, lost wake-up, stranded request) is permanent; a process that is starved of CPU - by the
other shards, by other workloads on the machine, by a throttled container - only LOOKS frozen for a while.  Wall-clock
silence alone must therefore never decide.  Stillness.look() reports a frozen state only when

  * the progress marker did not change for `quiet` seconds AND for at least `min_polls` looks of the polling loop
    (a process that was descheduled as a whole makes no looks: the wall clock advances, the look counter does not),
  * a heart-beat probe finds the scheduler responsive (a fresh thread runs, and a 2 ms sleep returns, within 50 ms);
    an unresponsive probe restarts the whole quiet period,
  * and two snapshots of the stacks of the watched threads, taken at least 0.5 s apart after all that, are identical
    (threads that still move without producing events are not a frozen state: keep waiting - the caller's generous
    hard watchdog turns that into INCONCLUSIVE, never into a violation).

Every suspicion that dissolves is counted (STATS) and reported in the evidence.
"""

import sys
import threading
import time
import traceback

STATS = {"frozen-suspicions": 0, "frozen-suspicions-dissolved": 0, "unresponsive-scheduler-probes": 0,
         "frozen-confirmed": 0, "stacks-still-moving": 0}
_lock = threading.Lock()


def _bump(key):
    with _lock:
        STATS[key] += 1


def thread_stacks(prefix=None, limit=6, skip=()):
    out = {}
    frames = sys._current_frames()
    names = {t.ident: t.name for t in threading.enumerate()}
    for ident, frame in frames.items():
        name = names.get(ident, str(ident))
        if name in skip or name == "vf-heartbeat":
            continue
        if not (name.startswith("vf") or (prefix and name.startswith(prefix))):
            continue
        stack = traceback.extract_stack(frame)[-limit:]
        out[name] = ["%s:%d %s" % (f.filename.split("/")[-1], f.lineno, f.name) for f in stack]
    return out


def scheduler_latency():
    """Seconds a fresh thread needs to run plus the overshoot of a 2 ms sleep (the larger of both)."""
    ev = threading.Event()
    t0 = time.monotonic()
    lat = 0.0
    try:
        th = threading.Thread(target=ev.set, name="vf-heartbeat")
        th.daemon = True
        th.start()
        ev.wait(5.0)
        lat = time.monotonic() - t0
    except Exception:  # noqa  (thread creation refused: judged by the sleep alone)
        pass
    t1 = time.monotonic()
    time.sleep(0.002)
    return max(lat, time.monotonic() - t1 - 0.002)


class Stillness(object):
    def __init__(self, quiet, min_polls, prefix=None, confirm=0.5):
        self.quiet = quiet
        self.min_polls = min_polls
        self.prefix = prefix
        self.confirm = confirm
        self.marker = object()
        self._reset(time.monotonic())

    def _reset(self, now):
        self.last_change = now
        self.polls = 0
        self.stacks1 = None
        self.confirm_at = None

    def look(self, marker):
        """One look of the polling loop. Returns None (keep waiting) or {"stacks": ...} (confirmed frozen)."""
        now = time.monotonic()
        if marker != self.marker:
            if self.stacks1 is not None:
                _bump("frozen-suspicions-dissolved")
            self.marker = marker
            self._reset(now)
            return None
        self.polls += 1
        if now - self.last_change <= self.quiet or self.polls < self.min_polls:
            return None
        me = threading.current_thread().name
        if self.stacks1 is None:
            if scheduler_latency() >= 0.05:
                # the machine is not giving us (or the watched threads) time: silence proves nothing yet
                _bump("unresponsive-scheduler-probes")
                self._reset(time.monotonic())
                return None
            _bump("frozen-suspicions")
            self.stacks1 = thread_stacks(self.prefix, skip=(me,))
            self.confirm_at = time.monotonic() + self.confirm
            return None
        if now < self.confirm_at:
            return None
        if scheduler_latency() >= 0.05:
            _bump("unresponsive-scheduler-probes")
            self.confirm_at = time.monotonic() + self.confirm
            return None
        stacks2 = thread_stacks(self.prefix, skip=(me,))
        if stacks2 == self.stacks1:
            _bump("frozen-confirmed")
            return {"stacks": thread_stacks(self.prefix)}
        _bump("stacks-still-moving")
        self.stacks1 = stacks2
        self.confirm_at = time.monotonic() + self.confirm
        return None


def report(ctx):
    """Copies the statistics into the shard's counters (evidence)."""
    for k, v in STATS.items():
        if v:
            ctx.counters["stillness:" + k] = ctx.counters.get("stillness:" + k, 0) + v
            STATS[k] = 0
