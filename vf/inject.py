"""
Schedule perturbation without touching the repository: sys.monitoring LINE
events enabled only on the code objects of chosen jsonrpclib modules.

modes
  none    no callback work (baseline; callers also shorten the switch interval)
  yield   at each line, with probability p: sleep(0) (70 %) or a 0.2-1 ms sleep
  stall   one stall point (qualname, line, role, k): the first thread of that
          role reaching that line for the k-th time is parked until the other
          threads have executed `budget` further monitored lines, capped at
          `cap` seconds (preemption-bound-1 exploration by delay injection)
Coverage: set of (qualname, line, role) seen; stall points actually hit.
"""

import random
import sys
import threading
import time
import types

TOOL = 4
_mon = sys.monitoring

def role_of_name(name):
    """Thread role from its name (idents are reused by the OS, names are ours)."""
    if name.startswith("vf-"):
        rest = name[3:]
        for role in ("controller", "enqueuer", "registrar", "observer", "executor", "client", "serve"):
            if rest.startswith(role):
                return role
        if rest.startswith(("joiner", "stopper")):
            return "controller"
        return "main"
    if name == "MainThread":
        return "main"
    return "worker"


def code_objects(module):
    """All code objects defined in a module (functions, methods, nested)."""
    seen = {}

    def walk_code(co):
        if co in seen:
            return
        seen[co] = True
        for c in co.co_consts:
            if isinstance(c, types.CodeType):
                walk_code(c)

    def walk_obj(obj, depth=0):
        if isinstance(obj, types.FunctionType):
            if obj.__module__ == module.__name__:
                walk_code(obj.__code__)
        elif isinstance(obj, (staticmethod, classmethod)):
            walk_obj(obj.__func__, depth)
        elif isinstance(obj, property):
            for f in (obj.fget, obj.fset, obj.fdel):
                if f is not None:
                    walk_obj(f, depth)
        elif isinstance(obj, type) and obj.__module__ == module.__name__ and depth < 4:
            for v in list(vars(obj).values()):
                walk_obj(v, depth + 1)
    for v in list(vars(module).values()):
        walk_obj(v)
    return list(seen)


def statement_lines(module, only=None):
    """[(qualname, line)] for every line event source of the module's functions."""
    out = []
    for co in code_objects(module):
        if only and not any(co.co_qualname.endswith(o) or o in co.co_qualname for o in only):
            continue
        lines = sorted(set(l for _, _, l in co.co_lines() if l is not None and l != co.co_firstlineno))
        for l in lines:
            out.append((co.co_qualname, l))
    return out


def instruction_points(module, only=None):
    """[(qualname, offset)] for every bytecode instruction of the module's functions (preemption points finer than lines:
    a read-modify-write like `self.x += 1` is one line but several instructions)."""
    import dis
    out = []
    for co in code_objects(module):
        if only and not any(co.co_qualname.endswith(o) for o in only):
            continue
        for ins in dis.get_instructions(co):
            if ins.opname in ("RESUME", "CACHE", "NOP"):
                continue
            out.append((co.co_qualname, ins.offset))
    return out


def rmw_points(module, only=None):
    """[(qualname, offset)] of the STORE that completes an augmented assignment (`self.x += 1`): parking a thread
    there leaves it between the read and the write of a read-modify-write."""
    import dis
    out = []
    for co in code_objects(module):
        if only and not any(co.co_qualname.endswith(o) for o in only):
            continue
        ins = list(dis.get_instructions(co))
        for i, x in enumerate(ins):
            if x.opname in ("STORE_ATTR", "STORE_FAST", "STORE_SUBSCR", "STORE_GLOBAL", "STORE_DEREF"):
                window = ins[max(0, i - 4):i]
                if any(w.opname == "BINARY_OP" and "=" in (w.argrepr or "") for w in window):
                    out.append((co.co_qualname, x.offset))
    return out


class Injector(object):
    def __init__(self, modules):
        self.modules = modules
        self.codes = []
        for m in modules:
            self.codes.extend(code_objects(m))
        self.by_qualname = {}
        for co in self.codes:
            self.by_qualname.setdefault(co.co_qualname, co)
        self._instr_code = None
        self.mode = "none"
        self.p = 0.0
        self.rng = random.Random(0)
        self.plan = None          # dict(qualname, line, role, k, budget, cap)
        self.lock = threading.Lock()
        self.lines_total = 0
        self.seen = set()
        self.hits = 0
        self.stalled = False
        self.occ = 0
        self.stall_thread = None
        self.active = False
        self.yields = 0

    # -- lifecycle
    def install(self):
        try:
            _mon.use_tool_id(TOOL, "vf-inject")
        except ValueError:
            _mon.free_tool_id(TOOL)
            _mon.use_tool_id(TOOL, "vf-inject")
        _mon.register_callback(TOOL, _mon.events.LINE, self._on_line)
        _mon.register_callback(TOOL, _mon.events.INSTRUCTION, self._on_instruction)
        for co in self.codes:
            _mon.set_local_events(TOOL, co, _mon.events.LINE)
        self.active = True

    def uninstall(self):
        if not self.active:
            return
        for co in self.codes:
            _mon.set_local_events(TOOL, co, 0)
        _mon.register_callback(TOOL, _mon.events.LINE, None)
        _mon.register_callback(TOOL, _mon.events.INSTRUCTION, None)
        _mon.free_tool_id(TOOL)
        self.active = False

    def configure(self, mode, seed=0, p=0.0, plan=None):
        # instruction events only on the one code object an instruction-level stall targets
        if self._instr_code is not None:
            _mon.set_local_events(TOOL, self._instr_code, _mon.events.LINE)
            self._instr_code = None
        if mode == "istall" and plan is not None and self.active:
            co = self.by_qualname.get(plan["qualname"])
            if co is not None:
                _mon.set_local_events(TOOL, co, _mon.events.LINE | _mon.events.INSTRUCTION)
                self._instr_code = co
        with self.lock:
            self.mode = mode
            self.p = p
            self.rng = random.Random(seed)
            self.plan = plan
            self.stalled = False
            self.occ = 0
            self.stall_thread = None
            self.lines_at_stall = 0

    # -- callback (runs in the thread executing the line)
    def _on_line(self, code, line):
        mode = self.mode
        if mode == "none":
            self.lines_total += 1
            return None
        ident = threading.get_ident()
        role = role_of_name(threading.current_thread().name)
        key = (code.co_qualname, line, role)
        if key not in self.seen:
            self.seen.add(key)
        self.lines_total += 1
        if mode == "yield":
            with self.lock:
                r = self.rng.random()
                r2 = self.rng.random()
            if r < self.p:
                self.yields += 1
                if r2 < 0.7:
                    time.sleep(0)
                else:
                    time.sleep(0.0002 + r2 * 0.0008 - 0.00056)
            return None
        plan = self.plan
        if plan is None or self.stalled or mode != "stall":
            return None
        if line == plan["line"] and role == plan["role"] and code.co_qualname == plan["qualname"]:
            with self.lock:
                if self.stalled:
                    return None
                self.occ += 1
                if self.occ != plan["k"]:
                    return None
                self.stalled = True
                self.stall_thread = ident
                start_lines = self.lines_total
            self.hits += 1
            deadline = time.monotonic() + plan["cap"]
            budget = plan["budget"]
            # park: let the other threads run `budget` monitored lines (or until the cap)
            while time.monotonic() < deadline and self.lines_total - start_lines < budget:
                time.sleep(0.0003)
        return None

    def _on_instruction(self, code, offset):
        plan = self.plan
        if self.mode != "istall" or plan is None or self.stalled:
            return None
        if offset != plan["offset"] or code.co_qualname != plan["qualname"]:
            return None
        role = role_of_name(threading.current_thread().name)
        if role != plan["role"]:
            return None
        with self.lock:
            if self.stalled:
                return None
            self.occ += 1
            if self.occ != plan["k"]:
                return None
            self.stalled = True
            start_lines = self.lines_total
        self.hits += 1
        deadline = time.monotonic() + plan["cap"]
        while time.monotonic() < deadline and self.lines_total - start_lines < plan["budget"]:
            time.sleep(0.0003)
        return None

    def snapshot(self):
        return {"lines": self.lines_total, "points_seen": len(self.seen), "stalls_hit": self.hits,
                "yields": self.yields}
