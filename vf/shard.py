"""
One shard of one check, in its own process:
    python -m vf.shard <prop> <tier> <seed> <shard> <nshards> <out_prefix> <timeout>
    python -m vf.shard --replay <file>
"""

import faulthandler
import importlib
import json
import os
import sys
import time

from vf import core


def main(argv):
    core.quiet_logging()
    if argv[0] == "--replay":
        with open(argv[1]) as fh:
            body = json.load(fh)
        prop = body["property"]
        mod = importlib.import_module("vf.checks." + prop.lower())
        ctx = core.Ctx(prop, body.get("tier", "quick"), body.get("seed", 0),
                       body.get("shard", 0), body.get("nshards", 1), replay=body)
        faulthandler.dump_traceback_later(600, exit=True)
        if not hasattr(mod, "replay"):
            print("no replay support for", prop)
            return 2
        mod.replay(ctx, body["case"])
        keys = sorted(set(v["key"] for v in ctx.violations))
        if keys:
            for v in ctx.violations[:3]:
                print("REPRODUCED key=%s detail=%s" % (v["key"], json.dumps(v["detail"], default=str)[:1500]))
            print("VIOLATION property=%s replay=%s" % (prop, argv[1]))
            return 1
        print("replay of %s did not reproduce (expected key %s); counters=%s"
              % (argv[1], body.get("key"), dict(ctx.counters)))
        return 0

    prop, tier, seed, shard, nshards, out_prefix, timeout = argv
    timeout = float(timeout)
    faulthandler.enable()
    faulthandler.dump_traceback_later(max(5, timeout - 3), exit=True)
    mod = importlib.import_module("vf.checks." + prop.lower())
    ctx = core.Ctx(prop, tier, int(seed), int(shard), int(nshards))
    ctx.deadline = time.time() + timeout * 0.8
    ctx.checkpoint_prefix = out_prefix
    if sys.flags.optimize:
        ctx.count("shards-under-python-O")
    if os.environ.get("VERIF_LOGGING") == "debug":
        ctx.count("shards-with-DEBUG-logging-effective")
    if os.environ.get("VERIF_WARNINGS") == "error":
        import warnings
        warnings.filterwarnings("error", module=r"jsonrpclib(\..*)?$")
        ctx.count("shards-with-library-warnings-as-errors")
    ctx.count("hash-seeds-used:" + os.environ.get("PYTHONHASHSEED", "?"))
    try:
        mod.run(ctx)
    except Exception as ex:  # harness failure: inconclusive, never green
        sys.stderr.write(core.format_exc(ex))
        ctx.unsure("harness exception: %s" % " | ".join(core.format_exc(ex).strip().splitlines()[-3:])[:400])
    from vf import steady
    steady.report(ctx)
    core.write_shard_result(ctx, out_prefix)
    faulthandler.cancel_dump_traceback_later()
    sys.stdout.flush()
    # daemon threads of pools / servers must not keep the shard alive
    os._exit(0)


if __name__ == "__main__":
    sys.exit(main(sys.argv[1:]))
