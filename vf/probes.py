"""
Probe callables: every invocation is logged (name, bound arguments, thread) in
one lock-protected list; behaviour comes from a declarative spec so that the
reference dispatcher (oracle.py) can predict the outcome independently.
"""

import inspect
import threading

from vf import gen

EXC_CLASSES = [
    ValueError, KeyError, IndexError, RuntimeError, ZeroDivisionError, OSError, IOError,
    AttributeError, LookupError, ArithmeticError, OverflowError, AssertionError, NotImplementedError,
    NameError, UnicodeError, FileNotFoundError, PermissionError, TimeoutError, StopIteration,
    BufferError, EOFError, MemoryError, RecursionError, ConnectionResetError, Exception,
]


class UserError(Exception):
    """User-defined ordinary exception"""


class UserErrorWithArgs(Exception):
    def __init__(self, a, b):
        Exception.__init__(self, a, b)


EXC_CLASSES.append(UserError)


class UnprintableError(Exception):
    """An ordinary exception whose text cannot be produced (str() raises TypeError): whoever reports it must not fail.
    Used by name only (C04: a notification stays unanswered whatever its method raises)."""

    def __str__(self):
        return 32603   # noqa  (not a string: str(ex) raises TypeError)


class UserBaseException(BaseException):
    """User-defined exception deriving from BaseException directly."""


# "any exception" for tasks of the thread pool / futures: exceptions that are not Exception subclasses
BASE_EXC_CLASSES = [SystemExit, KeyboardInterrupt, GeneratorExit, UserBaseException]


class FalsyError(Exception):
    """An ordinary exception whose instances are falsy."""

    def __bool__(self):
        return False


class EmptyError(Exception):
    """An ordinary exception with a length of zero."""

    def __len__(self):
        return 0


EXC_CLASSES.extend([FalsyError, EmptyError])


class Unconvertible(object):
    """A return value whose conversion fails: its serialisation method raises."""

    def _serialize(self):
        raise RuntimeError("cannot serialize this")


class ProbeLog(object):
    def __init__(self):
        self.lock = threading.Lock()
        self.entries = []

    def add(self, name, bound):
        with self.lock:
            self.entries.append((name, bound, threading.current_thread().name))

    def mark(self):
        with self.lock:
            return len(self.entries)

    def since(self, mark):
        with self.lock:
            return list(self.entries[mark:])

    def clear(self):
        with self.lock:
            del self.entries[:]


class Spec(object):
    """
    name      registered name (log key)
    params    parameter list source, e.g. "a, b=1, *args, k=2, **kw"
    behave    ('echo',) | ('const', value) | ('raise', exc_class, message)
              | ('typeerror-body', message) | ('unconvertible',)
    """

    def __init__(self, name, params="*args, **kwargs", behave=("echo",), kind="plain"):
        self.name = name
        self.params = params
        self.behave = behave
        self.kind = kind      # plain | wraps | bare-wrapper | partial | callable-instance | bound-method
        self._sig = None

    def shared_fault(self):
        import jsonrpclib
        if getattr(self, "_fault", None) is None:
            self._fault = jsonrpclib.Fault(self.behave[1], "shared fault object", data={"why": "not ready"})
        return self._fault

    @property
    def signature(self):
        if self._sig is None:
            ns = {}
            exec("def f(%s): pass" % self.params, ns)
            self._sig = inspect.signature(ns["f"])
        return self._sig

    def bind(self, args, kwargs):
        """Returns the bound argument mapping (defaults applied), or None if binding fails."""
        try:
            ba = self.signature.bind(*args, **kwargs)
        except TypeError:
            return None
        ba.apply_defaults()
        return dict(ba.arguments)

    def outcome(self, bound):
        """('return', value) | ('raise', exc_class, message) for a successfully bound call."""
        b = self.behave
        if b[0] == "echo":
            return ("return", {"probe": self.name, "bound": gen.jn(bound)})
        if b[0] == "const":
            return ("return", b[1])
        if b[0] == "raise":
            return ("raise", b[1], b[2])
        if b[0] == "typeerror-body":
            return ("raise", TypeError, b[1])
        if b[0] == "unconvertible":
            return ("unconvertible",)
        if b[0] == "shared-fault":
            # the library lets a method RETURN a Fault; this one hands out one module-level instance every time
            return ("fault", b[1])
        if b[0] == "planned":
            # the harness plans each return value before the call (a FIFO for batches)
            return ("return", b[1].popleft())
        raise AssertionError(b)

    def build(self, log):
        spec = self

        def __probe__(bound):
            log.add(spec.name, bound)
            out = spec.outcome(bound)
            if out[0] == "return":
                return out[1]
            if out[0] == "unconvertible":
                if len(spec.behave) > 1 and spec.behave[1] == "late":
                    # passes the class translator untouched and is refused by the JSON encoder only
                    return {(1, 2): "a dict with a tuple key"}
                if len(spec.behave) > 1 and spec.behave[1] == "late-nested":
                    return [0, {"k": {frozenset([1]): None}}]
                return Unconvertible()
            if out[0] == "fault":
                return spec.shared_fault()
            exc = out[1](out[2]) if out[2] is not None else out[1]()
            raise exc

        ns = {"__probe__": __probe__}
        exec("def probe_fn(%s):\n    return __probe__(dict(locals()))" % self.params, ns)
        fn = ns["probe_fn"]
        fn.__name__ = "probe_" + "".join(c if c.isalnum() else "_" for c in self.name)
        fn._vf_spec = self
        return wrap_kind(fn, self.kind)


def wrap_kind(fn, kind):
    """The same callable as registered by real users: decorated, partial, callable object, bound method."""
    import functools
    if kind == "plain":
        return fn
    if kind == "wraps":
        @functools.wraps(fn)
        def wrapper(*args, **kwargs):
            return fn(*args, **kwargs)
        return wrapper
    if kind == "bare-wrapper":
        def wrapper(*args, **kwargs):
            return fn(*args, **kwargs)
        wrapper.__name__ = fn.__name__
        return wrapper
    if kind == "partial":
        return functools.partial(fn)
    if kind == "callable-instance":
        class Callable(object):
            __name__ = fn.__name__

            def __call__(self, *args, **kwargs):
                return fn(*args, **kwargs)
        return Callable()
    if kind == "bound-method":
        class Holder(object):
            def method(self, *args, **kwargs):
                return fn(*args, **kwargs)
        return Holder().method
    raise AssertionError(kind)


KINDS = ["plain", "wraps", "bare-wrapper", "partial", "callable-instance", "bound-method"]


class Namespace(object):
    """Registered instance node: attributes are probes, values or sub-namespaces."""


def build_instance(tree, log):
    """tree: {attr: Spec | dict | ('value', v)}"""
    node = Namespace()
    for attr, sub in tree.items():
        if isinstance(sub, Spec):
            setattr(node, attr, sub.build(log))
        elif isinstance(sub, dict):
            setattr(node, attr, build_instance(sub, log))
        else:
            setattr(node, attr, sub[1])
    return node
