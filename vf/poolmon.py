"""
Thread-pool harness: one kind of recorded history, three offline checkers
(C09 exactly-once / faithful / FIFO, C10 bounds / growth / min, C11 join /
stop / restart).  Also used by C04, C12 and C16.

Boundary discipline: call events are logged before invoking the library, return
events after it returned or raised.  Queue order is logged inside the queue's
own mutex (MonitoredQueue._put/_get), so the log order IS the queue order.
"""

import queue as _real_queue
import sys
import functools
import threading
import time
import traceback

from vf import inject, steady

# ---------------------------------------------------------------------------
# event log


_IDLE_KINDS = frozenset(("get_call", "get_ret"))


class History(object):
    def __init__(self):
        self.lock = threading.Lock()
        self.events = []
        self.useful = 0   # events that show progress (idle workers polling the queue do not)

    def ev(self, kind, **fields):
        name = threading.current_thread().name
        with self.lock:
            seq = len(self.events)
            self.events.append((seq, kind, name, fields))
            if kind not in _IDLE_KINDS:
                self.useful += 1
        return seq

    def __len__(self):
        return len(self.events)

    def snapshot(self):
        with self.lock:
            return list(self.events)


_current = [None]


def current():
    return _current[0]


def set_current(h):
    _current[0] = h


def _token_of(item):
    if isinstance(item, tuple) and len(item) == 4:
        target = item[0]
        try:
            target = getattr(target, "func", target)         # functools.partial
            target = getattr(target, "__self__", target)     # bound method
            return getattr(target, "token", "?")
        except Exception:
            # (callable objects whose attribute lookup fails in their own way)
            return target.__dict__.get("_data", {}).get("token", "?")
    return "<sentinel>"


class MonitoredQueue(_real_queue.Queue):
    """queue.Queue whose put/take order and get/task_done calls are logged
    (into the history that was current when the queue was built: threads leaked
    by an abandoned earlier run keep logging into their own, dead history)."""

    def __init__(self, maxsize=0):
        self._h = _current[0]
        _real_queue.Queue.__init__(self, maxsize)

    def _put(self, item):
        h = self._h
        if h is not None:
            h.ev("q_put", tok=_token_of(item))
        _real_queue.Queue._put(self, item)

    def _get(self):
        item = _real_queue.Queue._get(self)
        h = self._h
        if h is not None:
            h.ev("q_get", tok=_token_of(item))
        return item

    def get(self, block=True, timeout=None):
        h = self._h
        if h is not None:
            h.ev("get_call")
        try:
            item = _real_queue.Queue.get(self, block, timeout)
        except BaseException:
            if h is not None:
                h.ev("get_ret", got=False)
            raise
        if h is not None:
            h.ev("get_ret", got=True)
        return item

    def task_done(self):
        h = self._h
        if h is not None:
            h.ev("task_done")
        _real_queue.Queue.task_done(self)


class QueueShim(object):
    """Stands for the `queue` module inside jsonrpclib.threadpool."""
    Queue = MonitoredQueue
    Empty = _real_queue.Empty
    Full = _real_queue.Full
    LifoQueue = _real_queue.LifoQueue
    PriorityQueue = _real_queue.PriorityQueue
    SimpleQueue = _real_queue.SimpleQueue


def install_queue_shim():
    """
    Makes pools built from now on use MonitoredQueue, however the pool module spells its import:
    `import queue` (the module-level name is replaced by a shim) or `from queue import Queue` (the name is rebound).
    Whether it worked is verified per pool by find_monitored_queue().
    """
    import jsonrpclib.threadpool as tp
    done = False
    if getattr(tp, "queue", None) is _real_queue or getattr(tp, "queue", None) is QueueShim:
        tp.queue = QueueShim
        done = True
    for name, value in list(vars(tp).items()):
        if value is _real_queue.Queue:
            setattr(tp, name, MonitoredQueue)
            done = True
    return done


# ---------------------------------------------------------------------------
# thread-creation faults: the operating system refuses a new thread ("can't start new thread")

THREAD_FAULTS = {"budget": 0, "history": None, "installed": False}


def install_thread_fault_shim():
    """
    Wraps threading._start_new_thread (what Thread.start calls in CPython 3.12): while a run has a fault budget,
    starting a thread that is not one of the harness's own (names vf-*) raises RuntimeError exactly as CPython does
    when pthread_create fails.  Independent of how the pool module imports threading.
    """
    if THREAD_FAULTS["installed"]:
        return True
    real = getattr(threading, "_start_new_thread", None)
    if real is None:
        return False

    def start_new_thread(function, args, *rest):
        owner = getattr(function, "__self__", None)
        name = getattr(owner, "name", "")
        if THREAD_FAULTS["budget"] > 0 and isinstance(owner, threading.Thread) and is_worker_name(name):
            THREAD_FAULTS["budget"] -= 1
            h = THREAD_FAULTS["history"]
            if h is not None:
                h.ev("thread_start_refused", thread=name)
            raise RuntimeError("can't start new thread")
        return real(function, args, *rest)
    threading._start_new_thread = start_new_thread
    THREAD_FAULTS["installed"] = True
    return True


def find_monitored_queue(pool):
    """The pool's task queue, found by type (no attribute name is assumed)."""
    for value in vars(pool).values():
        if isinstance(value, MonitoredQueue):
            return value
    return None


def is_worker_name(name):
    """Threads the harness did not create are the pool's workers (thread names are not part of the pool's API)."""
    return not name.startswith("vf-") and name != "MainThread"


# ---------------------------------------------------------------------------
# tasks

class Gate(object):
    def __init__(self, run, gid):
        self.run = run
        self.gid = gid
        self.event = threading.Event()

    def wait(self):
        # opened by the program ("open" op), or by the release-all signal raised
        # before every potentially blocking controller operation
        while not self.event.is_set() and not self.run.release_all.is_set():
            self.event.wait(0.002)


class Barrier(object):
    """n mutually dependent tasks: each waits until all n have started."""

    def __init__(self, run, n):
        self.run = run
        self.n = n
        self.lock = threading.Lock()
        self.arrived = 0
        self.event = threading.Event()

    def arrive_and_wait(self):
        with self.lock:
            self.arrived += 1
            if self.arrived >= self.n:
                self.event.set()
        while not self.event.is_set() and not self.run.abandon.is_set():
            self.event.wait(0.01)
        return self.event.is_set()


class Task(object):
    def __init__(self, run, token, kind, args=(), kwargs=None, gate=None, barrier=None, sleep=0.0):
        self.run = run
        self.token = token
        self.kind = kind            # ret | exc | gate | barrier | sleep
        self.args = args
        self.kwargs = kwargs or {}
        self.gate = gate
        self.barrier = barrier
        self.sleep = sleep
        self.ret = object() if kind != "exc" else None
        self.exc = _make_exc(token) if kind == "exc" else None
        self.__name__ = "task_%s" % token

    def __call__(self, *args, **kwargs):
        h = self.run.h
        ok = (len(args) == len(self.args) and all(a is b for a, b in zip(args, self.args))
              and set(kwargs) == set(self.kwargs) and all(kwargs[k] is self.kwargs[k] for k in kwargs))
        h.ev("task_start", tok=self.token, args_ok=ok)
        if self.gate is not None:
            self.gate.wait()
        if self.barrier is not None:
            opened = self.barrier.arrive_and_wait()
            if not opened:
                h.ev("barrier_abandoned", tok=self.token)
        if self.sleep:
            time.sleep(self.sleep)
        h.ev("task_end", tok=self.token)
        if self.exc is not None:
            raise self.exc
        return self.ret


    def call(self, *args, **kwargs):
        return self(*args, **kwargs)

    def submitted_as(self):
        """What is handed to enqueue: the task itself (a callable object with a __name__), a functools.partial or a
        nameless callable object (neither has a __name__), or a bound method - chosen by the token."""
        shape = hash(self.token) % 7
        if shape == 5:
            return _DictBacked(self)
        if shape == 2:
            return functools.partial(self)
        if shape == 3:
            return self.call
        if shape == 4:
            return _Nameless(self)
        return self


class _DictBacked(object):
    """A callable proxy object that answers unknown attributes from a dict: looking up a missing one raises KeyError,
    not AttributeError (no __name__ either)."""

    def __init__(self, task):
        self.__dict__["_data"] = {"task": task, "token": task.token}

    def __getattr__(self, key):
        return self.__dict__["_data"][key]

    def __call__(self, *args, **kwargs):
        return self.__dict__["_data"]["task"](*args, **kwargs)


class _Nameless(object):
    """A callable object without a __name__."""

    def __init__(self, task):
        self.task = task
        self.token = task.token

    def __call__(self, *args, **kwargs):
        return self.task(*args, **kwargs)


class _FalsyTaskError(Exception):
    def __bool__(self):
        return False


class _EmptyTaskError(Exception):
    def __len__(self):
        return 0


class _BaseTaskError(BaseException):
    """not an Exception subclass"""


_EXC = [ValueError, KeyError, OSError, RuntimeError, ZeroDivisionError, TimeoutError, IOError, TypeError,
        AttributeError, StopIteration, LookupError, AssertionError, Exception, _FalsyTaskError, _EmptyTaskError,
        SystemExit, KeyboardInterrupt, GeneratorExit, _BaseTaskError]


def _make_exc(token):
    cls = _EXC[hash(token) % len(_EXC)]
    return cls("task %s fails" % token)


# ---------------------------------------------------------------------------
# program generation

def gen_program(rng, focus="c09", maxt=None, busy=False):
    """
    A small client program. JSON-able (replayable).
    ops: start | stop | enq tok kind | wait tok | join t | sleep ms | open gid | go i | sample | barrier n
    """
    maxt = maxt or rng.choice([1, 1, 2, 2, 3])
    mint = rng.randint(0, maxt)
    prog = {"max": maxt, "min": mint, "timeout": rng.choice([0.005, 0.01, 0.02, 0.05]),
            "queue_size": 0 if rng.random() < 0.9 else rng.choice([1, 2, 3]),
            "controller": [], "enqueuers": []}
    if rng.random() < 0.12:
        # a long idle timeout: workers only wake up for work or when the pool wakes them (stop)
        prog["timeout"] = 30
        prog["queue_size"] = 0      # (a full bounded queue would legitimately block enqueue for that long)
    n_enq = rng.choice([0, 0, 1, 1, 2]) if not busy else 2
    counter = [0]
    gates = [0]

    def new_task(owner, allow_gate=True):
        counter[0] += 1
        tok = "%s%d" % (owner, counter[0])
        r = rng.random()
        if busy and r < 0.5:
            # tasks that are still running when a stalled thread resumes (their completion comes after its write)
            return ["enq", tok, "sleep", rng.choice([15, 25, 40])]
        if r < 0.45:
            return ["enq", tok, "ret"]
        if r < 0.65:
            return ["enq", tok, "exc"]
        if r < 0.8 and allow_gate:
            gates[0] += 1
            return ["enq", tok, "gate", gates[0]]
        if r < 0.9:
            return ["enq", tok, "sleep", rng.choice([1, 2, 5])]
        return ["enq", tok, "ret"]

    ops = prog["controller"]
    running = False
    my_tasks = []
    length = rng.randint(3, 16)
    went = 0
    if rng.random() < 0.35:
        # enqueue before start
        for _ in range(rng.randint(1, 4)):
            t = new_task("c")
            ops.append(t)
            my_tasks.append(t)
    for _ in range(length):
        r = rng.random()
        if went < n_enq and rng.random() < 0.3:
            ops.append(["go", went])
            went += 1
            continue
        if not running:
            if r < 0.55:
                ops.append(["start"])
                running = True
            elif r < 0.8:
                t = new_task("c")
                ops.append(t)
                my_tasks.append(t)
            elif r < 0.9:
                ops.append(["stop"])
            else:
                ops.append(["join", rng.choice([0.001, 0.005, 0.02])])
            continue
        if r < 0.4:
            t = new_task("c")
            ops.append(t)
            my_tasks.append(t)
        elif r < 0.52 and my_tasks:
            ops.append(["wait", rng.choice(my_tasks)[1]])
        elif r < 0.64:
            ops.append(["join", rng.choice([None, None, 0.001, 0.005, 0.02])])
        elif r < 0.72:
            ops.append(["stop"])
            running = False
            my_tasks = []   # tasks not yet started may be dropped by this stop: never waited for
        elif r < 0.78:
            ops.append(["start"])
        elif r < 0.86:
            ops.append(["sleep", rng.choice([1, 3, 10, 30, 70])])
        elif r < 0.9 and gates[0]:
            ops.append(["open", rng.randint(1, gates[0])])
        elif r < 0.95:
            ops.append(["sample"])
        else:
            if focus == "c10":
                ops.append(["barrier", rng.randint(2, maxt) if maxt > 1 else 1])
            else:
                ops.append(["sample"])
    while went < n_enq:
        ops.append(["go", went])
        went += 1
    for i in range(n_enq):
        eops = []
        for _ in range(rng.randint(1, 5) if not busy else rng.randint(8, 14)):
            if rng.random() < 0.25:
                eops.append(["sleep", rng.choice([0, 1, 3])])
            eops.append(new_task("e%d_" % i, allow_gate=not busy))
        prog["enqueuers"].append(eops)
    return prog


def gen_program_retirement_window(rng):
    """Workers that retire (idle for the pool's timeout, above min_threads) while the next task is being submitted:
    cycles of "one task, wait for it, stay idle for about the idle timeout, next task"; each task is waited for, so a
    task accepted while the last worker is on its way out shows as a frozen wait."""
    maxt = rng.choice([1, 1, 2, 3])
    mint = rng.choice([0, 0, 0, max(0, maxt - 2)])
    t_ms = rng.choice([5, 10, 20])
    prog = {"max": maxt, "min": mint, "timeout": t_ms / 1000.0, "queue_size": 0, "controller": [], "enqueuers": []}
    ops = prog["controller"]
    ops.append(["start"])
    n = 0
    for cycle in range(rng.randint(5, 10)):
        burst = rng.choice([1, 1, 1, 2, maxt])
        toks = []
        for _ in range(burst):
            n += 1
            kind = rng.choice(["ret", "ret", "exc", "sleep"])
            ops.append(["enq", "r%d" % n, kind] + ([rng.choice([1, 3])] if kind == "sleep" else []))
            toks.append("r%d" % n)
        for tok in toks:
            ops.append(["wait", tok])
        # idle for about the timeout: sometimes shorter (the worker is still polling), sometimes a little longer
        ops.append(["sleep", max(1, t_ms + rng.choice([-3, -1, 0, 1, 2, 4, 8, 15]))])
    n += 1
    ops.append(["enq", "r%d" % n, "ret"])
    ops.append(["wait", "r%d" % n])
    return prog


def gen_program_enqueue_during_start(rng):
    """One or two tasks are submitted by another thread WHILE start() (or a restart) is running, and nothing is submitted
    afterwards: nothing later can rescue a task that start() and enqueue() both left to the other.  The controller then
    waits for exactly those tasks."""
    maxt = rng.choice([1, 2, 3])
    mint = rng.choice([0, 0, min(1, maxt)])
    prog = {"max": maxt, "min": mint, "timeout": rng.choice([0.005, 0.01, 0.02]), "queue_size": 0,
            "controller": [], "enqueuers": []}
    ops = prog["controller"]
    if rng.random() < 0.5:
        ops.append(["start"])
        ops.append(["enq", "c0", "ret"])
        ops.append(["wait", "c0"])
        ops.append(["stop"])
    n = rng.choice([1, 1, 2])
    kinds = [rng.choice(["ret", "ret", "exc"]) for _ in range(n)]
    if maxt >= 2 and n == 2 and rng.random() < 0.5:
        kinds = ["gate", "ret"]           # the first one waits for the controller, the second must not wait for it
    eops = [["sleep", rng.choice([1, 2, 4])]]
    for i, k in enumerate(kinds):
        eops.append(["enq", "e0_%d" % (i + 1), k] + ([1] if k == "gate" else []))
    prog["enqueuers"].append(eops)
    ops.append(["go", 0])
    ops.append(["start"])
    ops.append(["sleep", 40])
    for i in reversed(range(len(kinds))):
        ops.append(["wait", "e0_%d" % (i + 1)])
    return prog


def gen_program_start_under_load(rng):
    """start() (or a restart) while other threads keep submitting tasks that outlive the call, then - once the pool
    has gone quiet and shrunk - one more task that the controller waits for."""
    maxt = rng.choice([1, 2, 3])
    mint = rng.choice([0, 0, rng.randint(0, maxt)])
    prog = {"max": maxt, "min": mint, "timeout": rng.choice([0.005, 0.01]), "queue_size": 0,
            "controller": [], "enqueuers": []}
    ops = prog["controller"]
    n = [0]

    def task(owner, kind=None):
        n[0] += 1
        k = kind or rng.choice(["sleep", "sleep", "ret", "exc"])
        return ["enq", "%s%d" % (owner, n[0]), k] + ([rng.choice([15, 30, 45])] if k == "sleep" else [])
    if rng.random() < 0.4:
        # nothing is queued before the pool starts (tasks queued before start() are counted twice by the pool's
        # pending counter, an upward drift that hides a lost increment): the producers meet running workers only
        ops.append(["start"])
        ops.append(["go", 0])
        ops.append(["go", 1])
    else:
        if rng.random() < 0.5:
            ops.append(["start"])
            ops.append(task("c", "ret"))
            ops.append(["stop"])
        for _ in range(rng.randint(1, 3)):
            ops.append(task("c", "ret"))
        ops.append(["go", 0])
        ops.append(["go", 1])
        ops.append(["start"])
    ops.append(["sleep", rng.choice([150, 250])])
    last = task("c", "ret")
    ops.append(last)
    ops.append(["wait", last[1]])
    for i in range(2):
        eops = [["sleep", rng.choice([1, 3])]]
        for _ in range(rng.randint(3, 7)):
            eops.append(task("e%d_" % i))
            if rng.random() < 0.7:
                # producers stay active while the workers complete tasks (their counter updates overlap)
                eops.append(["sleep", rng.choice([2, 5, 10, 20])])
        prog["enqueuers"].append(eops)
    return prog


def gen_program_lifecycle_call_under_burst(rng):
    """
    A lifecycle call of the controller (start after a few pre-queued tasks) overlapped by a BURST of submissions
    of long tasks from two other threads - many counter updates of other threads land inside one window of the
    controller - then quiescence (the pool shrinks to min 0) and one more task the controller waits for.
    """
    maxt = rng.choice([1, 1, 2])
    prog = {"max": maxt, "min": 0, "timeout": 0.01, "queue_size": 0, "controller": [], "enqueuers": []}
    ops = prog["controller"]
    for i in range(rng.randint(1, 2)):
        ops.append(["enq", "c%d" % i, "ret"])
    ops += [["go", 0], ["go", 1], ["start"], ["sleep", 300], ["enq", "last", "ret"], ["wait", "last"]]
    for e in range(2):
        eops = [["sleep", 3]]
        for i in range(6):
            eops.append(["enq", "e%d_%d" % (e, i), "sleep", 30])
        prog["enqueuers"].append(eops)
    return prog


def gen_program_stop_full_queue(rng):
    """
    stop() (then a restart) on a pool whose BOUNDED task queue is full while every worker is busy, with an idle
    timeout far longer than the run: the workers only learn about the stop from the pool itself.  The queue is
    filled exactly to its capacity (no enqueue ever blocks), the busy workers' gates open right after stop() is called.
    """
    maxt = rng.choice([1, 2, 3])
    mint = rng.randint(0, maxt)
    qsize = rng.choice([1, 1, 2, 3])
    prog = {"max": maxt, "min": mint, "timeout": rng.choice([30, None]), "queue_size": qsize,
            "controller": [["start"]], "enqueuers": []}
    ops = prog["controller"]
    for i in range(maxt):
        ops.append(["enq", "g%d" % i, "gate", i + 1])
    ops.append(["sleep", 30])                       # every worker has taken its gate task
    fill = rng.choice([qsize, qsize, max(0, qsize - 1)])
    for i in range(fill):
        ops.append(["enq", "q%d" % i, "ret"])
    if fill == qsize and rng.random() < 0.5:
        # ... and one more producer, blocked in enqueue() on the full queue while stop() runs
        prog["enqueuers"] = [[["enq", "blocked", "ret"]]]
        ops.append(["go", 0])
        ops.append(["sleep", 20])
    ops.append(["stop"])
    if rng.random() < 0.6:
        ops.append(["start"])
        ops.append(["enq", "after", "ret"])
        ops.append(["wait", "after"])
    return prog


def gen_program_blocked_producer(rng):
    """
    A bounded queue that is full while a producer thread is blocked in enqueue() (idle timeout far longer than the
    run): the worker that finishes its task must still take the queued one, which frees the slot the producer needs.
    """
    maxt = rng.choice([1, 1, 2])
    qsize = rng.choice([1, 2])
    prog = {"max": maxt, "min": rng.randint(0, maxt), "timeout": 30, "queue_size": qsize,
            "controller": [["start"]], "enqueuers": [[]]}
    ops = prog["controller"]
    for i in range(maxt):
        ops.append(["enq", "s%d" % i, "sleep", rng.choice([60, 100])])      # every worker busy for a while
    ops.append(["sleep", 20])
    for i in range(qsize):
        ops.append(["enq", "q%d" % i, "ret"])                                # the queue is full now
    prog["enqueuers"][0] = [["enq", "blocked", "ret"]]                       # this enqueue has to wait for a slot
    ops.append(["go", 0])
    ops.append(["wait", "q0"])
    ops.append(["sleep", 30])
    return prog


def gen_program_thread_faults(rng):
    """
    A running pool whose next 1-3 worker-thread creations are refused by the operating system while tasks keep
    arriving; then the fault is over, more tasks arrive (each may create a worker again), everything is awaited,
    and the pool - quiescent again - must still grow to max_threads for a group of mutually dependent tasks.
    Only the fault-free part after the refusals is judged for growth; start() itself is never disturbed.
    """
    maxt = rng.choice([1, 2, 2, 3])
    mint = rng.randint(0, maxt)
    prog = {"max": maxt, "min": mint, "timeout": rng.choice([0.005, 0.01, 0.02]), "queue_size": 0,
            "controller": [], "enqueuers": [], "thread_faults": True}
    ops = prog["controller"]
    n = [0]
    toks = []

    def task(kind=None):
        n[0] += 1
        k = kind or rng.choice(["ret", "ret", "exc", "sleep"])
        op = ["enq", "f%d" % n[0], k] + ([rng.choice([2, 5, 15])] if k == "sleep" else [])
        toks.append(op[1])
        return op
    ops.append(["start"])
    if rng.random() < 0.5:
        for _ in range(rng.randint(1, 3)):
            ops.append(task())
        ops.append(["join", None])
    if rng.random() < 0.7:
        ops.append(["sleep", int(prog["timeout"] * 3000) + 5])     # surplus workers retire: growth will be needed
    for rnd in range(rng.choice([1, 1, 2])):
        ops.append(["failstart", rng.choice([1, 1, 2, 3])])
        for _ in range(rng.randint(1, 4)):
            ops.append(task())
        ops.append(["failstart", 0])
        for _ in range(maxt + rng.randint(0, 1)):
            ops.append(task("ret"))
        ops.append(["join", None])
    for tok in toks[-3:]:
        ops.append(["wait", tok])
    r = rng.random()
    if r < 0.4:
        ops.append(["barrier", maxt])
    elif r < 0.6:
        ops.append(["stop"])
        ops.append(["start"])
        ops.append(["barrier", maxt])
    elif r < 0.8:
        ops.append(["sample"])
    return prog


# ---------------------------------------------------------------------------
# running a program against the real ThreadPool

class PoolRun(object):
    _serial = [0]

    def __init__(self, prog, injector=None):
        self.prog = prog
        self.h = History()
        self.release_all = threading.Event()
        self.abandon = threading.Event()
        self.gates = {}
        self.tasks = {}
        self.futures = {}
        self.injector = injector
        PoolRun._serial[0] += 1
        self.name = "vfpool%d" % PoolRun._serial[0]
        self.pool = None
        self.error = None
        self.frozen = None
        self.controller_done = threading.Event()
        self.running = False
        self.go = [threading.Event() for _ in prog["enqueuers"]]
        self.preexisting = set()

    # -- helpers
    def workers_alive(self):
        # worker threads of THIS pool: created after the pool, not by the harness
        return [t for t in threading.enumerate() if t not in self.preexisting and is_worker_name(t.name)]

    def make_task(self, op):
        tok, kind = op[1], op[2]
        gate = barrier = None
        sleep = 0.0
        if kind == "gate":
            gid = op[3]
            gate = self.gates.setdefault(gid, Gate(self, gid))
        elif kind == "sleep":
            sleep = op[3] / 1000.0
        args = (object(), tok)
        kwargs = {"kw": object()} if hash(tok) % 2 else {}
        t = Task(self, tok, kind, args, kwargs, gate, barrier, sleep)
        self.tasks[tok] = t
        return t

    def do_enq(self, op):
        t = self.make_task(op)
        c = self.h.ev("enq_call", tok=t.token)
        try:
            fut = self.pool.enqueue(t.submitted_as(), *t.args, **t.kwargs)
        except BaseException as ex:  # noqa
            self.h.ev("enq_ret", tok=t.token, call=c, ok=False, exc=type(ex).__name__)
            return None
        self.futures[t.token] = fut
        self.h.ev("enq_ret", tok=t.token, call=c, ok=True)
        return fut

    def releasing(self):
        """Before a potentially blocking operation: all gates get released shortly."""
        delay = (hash((self.name, len(self.h))) % 4) * 0.001
        timer = threading.Timer(delay, self.release_all.set)
        timer.name = "vf-releaser"
        timer.daemon = True
        timer.start()
        return timer

    def controller(self):
        h = self.h
        try:
            for op in self.prog["controller"]:
                if self.abandon.is_set():
                    # the run was given up (frozen state): a controller that gets unstuck later must not go on creating
                    # threads that the next history would see
                    return
                k = op[0]
                if k == "start":
                    c = h.ev("start_call")
                    self.pool.start()
                    h.ev("start_ret", call=c)
                    self.running = True
                elif k == "stop":
                    t = self.releasing()
                    c = h.ev("stop_call", effective=self.running)
                    self.pool.stop()
                    h.ev("stop_ret", call=c, effective=self.running)
                    self.running = False
                    t.cancel()
                    self.release_all.clear()
                elif k == "enq":
                    self.do_enq(op)
                elif k == "wait":
                    fut = self.futures.get(op[1])
                    if fut is None:
                        continue
                    task = self.tasks[op[1]]
                    if not self.running:
                        # the task may never run while stopped: observe without blocking
                        c = h.ev("done_call", tok=op[1])
                        d = fut.done()
                        h.ev("done_ret", tok=op[1], call=c, done=bool(d))
                        continue
                    t = self.releasing()
                    c = h.ev("wait_call", tok=op[1])
                    try:
                        r = fut.result(20)
                        out = "same" if r is task.ret and task.exc is None else "other-value"
                    except BaseException as ex:  # noqa
                        if ex is task.exc:
                            out = "same-exc"
                        elif isinstance(ex, OSError) and "imeout" in str(ex):
                            out = "timeout"
                        else:
                            out = "other-exc:" + type(ex).__name__
                    h.ev("wait_ret", tok=op[1], call=c, out=out, done=bool(fut.done()))
                    t.cancel()
                    self.release_all.clear()
                elif k == "join":
                    timeout = op[1]
                    t = None
                    if timeout is None:
                        t = self.releasing()
                    c = h.ev("join_call", timeout=timeout, running=self.running)
                    r = self.pool.join(timeout) if timeout is not None else self.pool.join()
                    h.ev("join_ret", call=c, result=r, running=self.running)
                    if t is not None:
                        t.cancel()
                        self.release_all.clear()
                elif k == "sleep":
                    time.sleep(op[1] / 1000.0)
                elif k == "open":
                    g = self.gates.get(op[1])
                    if g is not None:
                        g.event.set()
                elif k == "go":
                    self.go[op[1]].set()
                elif k == "failstart":
                    # the next op[1] worker-thread creations are refused by the "operating system" (0 = fault over)
                    THREAD_FAULTS["history"] = h
                    THREAD_FAULTS["budget"] = op[1]
                    h.ev("thread_faults", budget=op[1])
                elif k == "sample":
                    if self.running:
                        # idle sample: let idle timeouts expire, then count live workers
                        time.sleep(min(self.prog["timeout"] * 2.5, 0.15))
                        alive = len(self.workers_alive())
                        h.ev("sample", alive=alive)
                elif k == "barrier":
                    self.do_barrier(op[1])
        except BaseException as ex:  # noqa
            self.error = "controller: " + "".join(traceback.format_exception(type(ex), ex, ex.__traceback__))[-800:]
            h.ev("controller_error", exc=type(ex).__name__)
        finally:
            THREAD_FAULTS["budget"] = 0
            for g in self.go:
                g.set()

    def do_barrier(self, n, label="b"):
        """n mutually dependent tasks; only when the pool runs. Waits for all of them."""
        if not self.running or n < 1:
            return
        h = self.h
        t = self.releasing()   # blocked gate tasks would occupy workers legitimately
        b = Barrier(self, n)
        toks = []
        futs = []
        base = len(self.tasks)
        h.ev("barrier_begin", n=n)
        for i in range(n):
            tok = "%s%d_%d" % (label, base, i)
            task = Task(self, tok, "barrier", (object(), tok), {}, None, b)
            self.tasks[tok] = task
            toks.append(tok)
            c = h.ev("enq_call", tok=tok)
            try:
                fut = self.pool.enqueue(task, *task.args)
                self.futures[tok] = fut
                futs.append(fut)
                h.ev("enq_ret", tok=tok, call=c, ok=True)
            except BaseException as ex:  # noqa
                h.ev("enq_ret", tok=tok, call=c, ok=False, exc=type(ex).__name__)
        # a bounded queue may have refused some: the group is the accepted ones
        with b.lock:
            b.n = len(futs)
            if b.arrived >= b.n:
                b.event.set()
        # wait with the frozen-state rule (no deadline decides)
        opened = self.wait_progress(lambda: b.event.is_set(), "barrier")
        h.ev("barrier_end", n=len(futs), opened=opened, toks=toks, alive=[t.name for t in self.workers_alive()])
        if opened:
            for fut in futs:
                try:
                    fut.result(20)
                except BaseException:  # noqa
                    pass
        t.cancel()
        self.release_all.clear()

    def wait_progress(self, cond, what, hard=60.0):
        """
        Waits for cond() under the bounded-progress rule: gives up (returns False)
        only in a CONFIRMED frozen state (vf/steady.py: no useful event for 1.5 s and 250 looks, a responsive scheduler,
        identical thread stacks 0.5 s apart) with cond still false.  `hard` is the inconclusive watchdog.
        """
        t0 = time.monotonic()
        still = steady.Stillness(1.5, 250, self.name)
        while not cond():
            time.sleep(0.002)
            now = time.monotonic()
            verdict = still.look(self.h.useful)
            if verdict is not None:
                # confirmed (see vf/steady.py): silent for 1.5 s of observed polling, scheduler responsive, stacks identical
                self.frozen = {"what": what, "stacks": verdict["stacks"]}
                return False
            if now - t0 > hard:
                self.frozen = {"what": what + " (watchdog, inconclusive)", "stacks": thread_stacks(self.name),
                               "inconclusive": True}
                return False
        return True

    def enqueuer(self, i):
        self.go[i].wait()
        for op in self.prog["enqueuers"][i]:
            if self.abandon.is_set():
                return
            if op[0] == "sleep":
                time.sleep(op[1] / 1000.0)
            else:
                self.do_enq(op)

    # -- the run
    def execute(self, growth_probe=True):
        import jsonrpclib.threadpool as tp
        set_current(self.h)
        prog = self.prog
        self.preexisting = set(threading.enumerate())
        self.pool = tp.ThreadPool(prog["max"], prog["min"], queue_size=prog["queue_size"],
                                  timeout=prog["timeout"], logname=self.name)
        if find_monitored_queue(self.pool) is None:
            self.error = "the pool did not build its queue through queue.Queue: MonitoredQueue not attached"
            set_current(None)
            return []
        h = self.h
        h.ev("pool_created", max=prog["max"], min=prog["min"])
        threads = [threading.Thread(target=self.controller, name="vf-controller")]
        for i in range(len(prog["enqueuers"])):
            threads.append(threading.Thread(target=self.enqueuer, args=(i,), name="vf-enqueuer%d" % i))
        for t in threads:
            t.daemon = True
            t.start()
        ok = self.wait_progress(lambda: not any(t.is_alive() for t in threads), "program")
        if not ok:
            self.abandon.set()
            self.release_all.set()
            h.ev("abandoned", what=self.frozen["what"], alive=[t.name for t in self.workers_alive()])
            return self.finish()
        h.ev("program_done")
        # ---- epilogue: restart if stopped, release everything, drain, probe growth, stop
        self.release_all.set()
        for g in self.gates.values():
            g.event.set()
        if not self.running:
            c = h.ev("start_call")
            self.pool.start()
            h.ev("start_ret", call=c)
            self.running = True
        h.ev("drain_begin")
        must = must_run_tokens(h.snapshot())
        started = lambda: all_ended(h, must)  # noqa
        drained = self.wait_progress(started, "drain")
        h.ev("drain_end", ok=drained)
        if not drained:
            h.ev("abandoned", what="drain", alive=[t.name for t in self.workers_alive()])
        if drained and growth_probe and not self.frozen:
            self.release_all.clear()
            self.do_barrier(prog["max"], "g")
            # all workers busy no longer; a final join on a quiescent running pool
            c = h.ev("join_call", timeout=None, running=True)
            jt = threading.Thread(target=self._final_join, args=(c,), name="vf-joiner")
            jt.daemon = True
            jt.start()
            if not self.wait_progress(lambda: not jt.is_alive(), "final join"):
                h.ev("abandoned", what=self.frozen["what"])
        if not self.frozen:
            st = threading.Thread(target=self._final_stop, name="vf-stopper")
            st.daemon = True
            st.start()
            stopped = self.wait_progress(lambda: not st.is_alive(), "final stop")
            if not stopped:
                h.ev("abandoned", what=self.frozen["what"])
            if stopped:
                gone = self.wait_progress(lambda: not self.workers_alive(), "workers terminate after stop")
                h.ev("workers_gone", ok=gone, alive=len(self.workers_alive()))
        return self.finish()

    def _final_join(self, c):
        r = self.pool.join()
        self.h.ev("join_ret", call=c, result=r, running=True)

    def _final_stop(self):
        c = self.h.ev("stop_call", effective=True)
        self.pool.stop()
        self.h.ev("stop_ret", call=c, effective=True)
        self.running = False

    def finish(self):
        self.abandon.set()
        self.release_all.set()
        for g in self.gates.values():
            g.event.set()
        set_current(None)
        return self.h.snapshot()


def thread_stacks(prefix=None, limit=6):
    out = {}
    frames = sys._current_frames()
    names = {t.ident: t.name for t in threading.enumerate()}
    for ident, frame in frames.items():
        name = names.get(ident, str(ident))
        if not (name.startswith("vf") or (prefix and name.startswith(prefix))):
            continue
        stack = traceback.extract_stack(frame)[-limit:]
        out[name] = ["%s:%d %s" % (f.filename.split("/")[-1], f.lineno, f.name) for f in stack]
    return out


# ---------------------------------------------------------------------------
# offline analysis

def index(events):
    """Per-token and per-kind views of a history."""
    ix = {"enq": {}, "start": {}, "end": {}, "puts": [], "gets": [], "stops": [], "starts": [], "joins": [],
          "waits": [], "samples": [], "workers": {}, "barriers": [], "dones": []}
    calls = {}
    for seq, kind, ident, f in events:
        if kind == "enq_call":
            ix["enq"][f["tok"]] = {"call": seq, "ret": None, "ok": None, "thread": ident}
        elif kind == "enq_ret":
            e = ix["enq"][f["tok"]]
            e["ret"], e["ok"] = seq, f["ok"]
        elif kind == "task_start":
            ix["start"].setdefault(f["tok"], []).append((seq, ident, f["args_ok"]))
        elif kind == "task_end":
            ix["end"].setdefault(f["tok"], []).append(seq)
        elif kind == "q_put":
            ix["puts"].append((seq, f["tok"]))
        elif kind == "q_get":
            ix["gets"].append((seq, f["tok"], ident))
        elif kind in ("stop_call", "start_call", "join_call", "wait_call", "done_call"):
            calls[seq] = (kind, f)
        elif kind == "stop_ret":
            ix["stops"].append({"call": f["call"], "ret": seq, "effective": f["effective"]})
        elif kind == "start_ret":
            ix["starts"].append({"call": f["call"], "ret": seq})
        elif kind == "join_ret":
            cf = calls[f["call"]][1]
            ix["joins"].append({"call": f["call"], "ret": seq, "timeout": cf["timeout"], "result": f["result"],
                                "running": cf["running"] and f["running"]})
        elif kind == "wait_ret":
            ix["waits"].append({"call": f["call"], "ret": seq, "tok": f["tok"], "out": f["out"], "done": f["done"]})
        elif kind == "done_ret":
            ix["dones"].append({"call": f["call"], "ret": seq, "tok": f["tok"], "done": f["done"]})
        elif kind == "sample":
            ix["samples"].append((seq, f["alive"]))
        elif kind == "get_call":
            if is_worker_name(ident):
                w = ix["workers"].setdefault(ident, [seq, seq])
                w[1] = seq
        elif kind == "barrier_end":
            ix["barriers"].append((seq, f))
    # stop calls that never returned
    returned = set(s["call"] for s in ix["stops"])
    ix["open_stops"] = [seq for seq, (kind, f) in calls.items() if kind == "stop_call" and seq not in returned]
    ix["stop_calls"] = sorted(seq for seq, (kind, f) in calls.items() if kind == "stop_call")
    ix["open_joins"] = [seq for seq, (kind, f) in calls.items() if kind == "join_call"
                        and seq not in set(j["call"] for j in ix["joins"])]
    return ix


def must_run_tokens(events):
    """
    Accepted tasks that the property obliges the pool to run: the enqueue
    returned normally and no effective stop makes it optional.  A task is
    optional iff some effective stop returned (or is still in progress) after
    its enqueue was called and the task had not started before that stop was called.
    """
    ix = index(events)
    must = []
    stops = [(s["call"], s["ret"]) for s in ix["stops"] if s["effective"]]
    stops += [(c, 10 ** 12) for c in ix["open_stops"]]
    for tok, e in ix["enq"].items():
        if not e["ok"]:
            continue
        first_start = ix["start"].get(tok, [(None,)])[0][0]
        optional = False
        for sc, sr in stops:
            if sr > e["call"] and (first_start is None or first_start > sc):
                optional = True
                break
        if not optional:
            must.append(tok)
    return must


def all_ended(h, toks):
    with h.lock:
        ended = set(f["tok"] for _, kind, _, f in h.events if kind == "task_end")
    return all(t in ended for t in toks)


def check_c09(events, prog):
    """Returns a list of (key, detail)."""
    ix = index(events)
    out = []
    for tok, starts in ix["start"].items():
        if len(starts) > 1:
            out.append(("task-executed-twice", {"tok": tok, "starts": [s[0] for s in starts]}))
        if not all(s[2] for s in starts):
            out.append(("task-arguments-altered", {"tok": tok}))
        if tok not in ix["enq"]:
            out.append(("unknown-task-executed", {"tok": tok}))
    abandoned = any(k == "abandoned" for _, k, _, _ in events)
    drained = [f["ok"] for _, k, _, f in events if k == "drain_end"]
    # members of a dependent group that never opened are C10's progress clause, not C09's
    stuck = set()
    for seq, f in ix["barriers"]:
        if not f["opened"]:
            stuck.update(f["toks"])
    frozen_program = any(k == "abandoned" and f.get("what") == "program" for _, k, _, f in events)
    if frozen_program:
        # the program froze (nothing moved for 1.5 s, all gates released) while the controller waits for a result:
        # an accepted, obligatory task that has not started by now never will
        must = set(must_run_tokens(events))
        waited = [f["tok"] for _, k, _, f in events if k == "wait_call"]
        answered = set(f["tok"] for _, k, _, f in events if k == "wait_ret")
        for tok in waited:
            if tok not in answered and tok in must and tok not in ix["start"]:
                out.append(("accepted-task-never-executed", {"tok": tok, "frozen_while_waiting_for_it": True}))
    # a frozen state with a caller still waiting for the result of a task whose body has finished
    if abandoned:
        answered = set(f["tok"] for _, k, _, f in events if k == "wait_ret")
        for _, k, _, f in events:
            if k == "wait_call" and f["tok"] not in answered and ix["end"].get(f["tok"]):
                out.append(("future-never-done-after-task-end", {"tok": f["tok"]}))
    if drained and not abandoned:
        for tok in must_run_tokens(events):
            if tok not in ix["start"] and tok not in stuck:
                out.append(("accepted-task-never-executed", {"tok": tok, "drain_ok": drained[0]}))
    # nothing starts between a stop return and the next start call
    starts_calls = sorted(s["call"] for s in ix["starts"])
    for s in ix["stops"]:
        if not s["effective"]:
            continue
        nxt = next((c for c in starts_calls if c > s["ret"]), 10 ** 12)
        for tok, st in ix["start"].items():
            for seq, _, _ in st:
                if s["ret"] < seq < nxt:
                    out.append(("task-started-after-stop-returned", {"tok": tok, "stop_ret": s["ret"], "start": seq}))
    # faithful results
    for w in ix["waits"]:
        tok = w["tok"]
        ended_before = any(e < w["ret"] for e in ix["end"].get(tok, []))
        if w["out"] in ("other-value",) or w["out"].startswith("other-exc"):
            out.append(("future-result-not-faithful:" + w["out"].split(":")[0], {"tok": tok, "out": w["out"]}))
        elif w["out"] in ("same", "same-exc"):
            if not ended_before:
                out.append(("future-result-before-task-end", {"tok": tok}))
            if not w["done"]:
                out.append(("future-not-done-after-result", {"tok": tok}))
    for d in ix["dones"]:
        if d["done"] and not any(e < d["ret"] for e in ix["end"].get(d["tok"], [])):
            out.append(("future-done-before-task-end", {"tok": d["tok"]}))
    # FIFO with a single worker
    if prog["max"] == 1:
        put_order = [tok for _, tok in ix["puts"] if tok != "<sentinel>"]
        pos = {}
        for i, tok in enumerate(put_order):
            pos.setdefault(tok, i)
        started = sorted((st[0][0], tok) for tok, st in ix["start"].items())
        last = -1
        for seq, tok in started:
            p = pos.get(tok)
            if p is None:
                continue
            if p < last:
                out.append(("single-worker-start-order-not-fifo", {"tok": tok, "order": [t for _, t in started][:12],
                                                                  "put_order": put_order[:12]}))
                break
            last = p
    return out


def check_c10(events, prog):
    ix = index(events)
    out = []
    maxt, mint = prog["max"], prog["min"]
    # tasks inside their body
    inside = 0
    peak = 0
    for seq, kind, ident, f in events:
        if kind == "task_start":
            inside += 1
            if inside > peak:
                peak = inside
            if inside > maxt:
                out.append(("more-tasks-running-than-max_threads", {"at": seq, "running": inside, "max": maxt}))
                break
        elif kind == "task_end":
            inside -= 1
    # overlapping worker serving intervals [first get call, last get call]
    marks = []
    for ident, (a, b) in ix["workers"].items():
        marks.append((a, 1))
        marks.append((b + 0.5, -1))
    marks.sort()
    cur = 0
    for pos, d in marks:
        cur += d
        if cur > maxt:
            out.append(("more-serving-workers-than-max_threads", {"at": pos, "serving": cur, "max": maxt}))
            break
    # min_threads at idle samples
    for seq, alive in ix["samples"]:
        if alive < mint:
            out.append(("fewer-live-workers-than-min_threads", {"at": seq, "alive": alive, "min": mint}))
    # progress of mutually dependent tasks
    for seq, f in ix["barriers"]:
        if not f["opened"]:
            out.append(("dependent-tasks-deadlocked", {"n": f["n"], "max": maxt, "toks": f["toks"]}))
    # frozen state (nothing moved for 1.5 s, every gate released) of a running pool: a task still queued while fewer
    # than max_threads tasks execute means an idle worker exists or fewer than max_threads workers exist
    for seq, kind, ident, f in events:
        if kind != "abandoned" or f.get("what") not in ("program", "drain"):
            continue
        running = False
        faults = 0
        inside = 0
        queued = []
        for s2, k2, _, f2 in events:
            if s2 >= seq:
                break
            if k2 == "start_ret":
                running = True
            elif k2 == "stop_call":
                running = False
            elif k2 == "thread_faults":
                faults = f2["budget"]
            elif k2 == "task_start":
                inside += 1
            elif k2 == "task_end":
                inside -= 1
            elif k2 == "q_put" and f2.get("tok") not in (None, "<sentinel>", "?"):
                queued.append(f2["tok"])
            elif k2 == "q_get" and f2.get("tok") in queued:
                queued.remove(f2["tok"])
        if running and not faults and queued and inside < maxt:
            returned = set(f2["call"] for s2, k2, _, f2 in events if k2 == "enq_ret" and s2 < seq)
            blocked_producer = prog.get("queue_size", 0) > 0 and any(
                k2 == "enq_call" and s2 < seq and s2 not in returned for s2, k2, _, f2 in events)
            out.append(("waiting-task-not-started-below-max_threads"
                        + (":while-a-producer-is-blocked-on-the-full-bounded-queue" if blocked_producer else ""),
                        {"queued": queued[:5], "executing": inside, "max": maxt, "live_workers": f.get("alive"),
                         "frozen": f["what"]}))
    return out, {"peak_running": peak, "workers_seen": len(ix["workers"])}


def check_c11(events, prog):
    ix = index(events)
    out = []
    abandoned = [f["what"] for _, k, _, f in events if k == "abandoned"]
    eff_stops = [(s["call"], s["ret"]) for s in ix["stops"] if s["effective"]] + [(c, 10 ** 12) for c in ix["open_stops"]]
    for j in ix["joins"]:
        if not j["running"]:
            continue
        # joins overlapping an effective stop are not judged
        if any(sc < j["ret"] and sr > j["call"] for sc, sr in eff_stops):
            continue
        if j["result"] is True:
            for tok, e in ix["enq"].items():
                if e["ok"] and e["ret"] is not None and e["ret"] < j["call"]:
                    # dropped by an earlier stop? then it never ends legitimately
                    if any(sr > e["call"] and sc < j["call"] and not any(st[0] < sc for st in ix["start"].get(tok, []))
                           for sc, sr in eff_stops):
                        continue
                    ends = ix["end"].get(tok, [])
                    if not any(x < j["ret"] for x in ends):
                        started = tok in ix["start"]
                        out.append(("join-true-while-task-%s" % ("running" if started else "waiting"),
                                    {"tok": tok, "join_call": j["call"], "join_ret": j["ret"],
                                     "timeout": j["timeout"]}))
                        break
        elif j["result"] is not False:
            out.append(("join-returned-non-boolean", {"result": repr(j["result"])}))
    inconclusive = any("watchdog" in w for w in abandoned)
    if abandoned and not inconclusive:
        # a frozen history: which lifecycle call never returned?
        if ix["open_stops"]:
            out.append(("stop-did-not-return", {"what": abandoned[0], "stop_call": ix["open_stops"][0]}))
        for jc in ix["open_joins"]:
            # every task enqueued before the join has ended (or was legitimately dropped): join had to return
            pending = []
            for tok, e in ix["enq"].items():
                if e["ok"] and e["ret"] is not None and e["ret"] < jc and not ix["end"].get(tok):
                    if any(sr > e["call"] and sc < jc and not any(st[0] < sc for st in ix["start"].get(tok, []))
                           for sc, sr in eff_stops):
                        continue
                    pending.append(tok)
            if not pending:
                out.append(("join-did-not-return-although-all-tasks-finished", {"what": abandoned[0], "join_call": jc}))
            else:
                out.append(("join-blocked-forever-on-unfinished-tasks", {"what": abandoned[0], "pending": pending[:5]}))
    for seq, kind, ident, f in events:
        if kind == "workers_gone" and not f["ok"]:
            out.append(("worker-alive-after-stop", {"alive": f["alive"]}))
        if kind == "controller_error":
            out.append(("lifecycle-call-raised-" + f["exc"], {}))
    return out
