"""
Peers: in-process loopback transports, raw-socket HTTP peers (recording server,
scripted fault server, raw client).
"""


class CannedTransport(object):
    """Transport double that answers every request with a prepared text and
    records what it carried (the client boundary for crafted replies)."""

    def __init__(self, reply_text=""):
        self.reply_text = reply_text
        self.requests = []
        self.headers = []

    def push_headers(self, headers):
        self.headers.append(headers)

    def pop_headers(self, headers):
        self.headers.pop()

    def request(self, host, handler, request_body, verbose=0):
        self.requests.append((host, handler, request_body))
        if len(self.requests) > 64:
            del self.requests[:32]
        return self.reply_text

    def close(self):
        pass


class LoopbackTransport(object):
    """In-process transport: hands the request text to a dispatcher fixture and
    returns its output; records both texts (the server boundary for History checks)."""

    def __init__(self, fx):
        self.fx = fx
        self.exchanges = []
        self.headers = []

    def push_headers(self, headers):
        self.headers.append(headers)

    def pop_headers(self, headers):
        self.headers.pop()

    def request(self, host, handler, request_body, verbose=0):
        during, self.during = getattr(self, "during", None), None
        if during is not None:
            # something the application does while this exchange is in progress (one-shot hook of the harness)
            during()
        out = self.fx.dispatch(request_body)
        self.exchanges.append((request_body, out))
        return out

    def close(self):
        pass


# ---------------------------------------------------------------------------
# raw-socket HTTP peer (server role): records what it receives exactly as
# received, answers according to a per-request decision callback.

import json as _json
import os as _os
import shutil as _shutil
import socket as _socket
import struct as _struct
import tempfile as _tempfile
import threading as _threading
import time as _time


class Request(object):
    __slots__ = ("line", "method", "target", "headers", "body", "conn_id", "seq", "raw_head")

    def header(self, name, default=None):
        vals = [v for k, v in self.headers if k.lower() == name.lower()]
        return vals[-1] if vals else default

    def headers_named(self, name):
        return [v for k, v in self.headers if k.lower() == name.lower()]


def healthy_reply(req, extra_headers=(), keep_alive=True, gzip_body=False, content_type="application/json-rpc"):
    """A correct JSON-RPC reply computed from the request actually received: echoes the token (params[0])."""
    try:
        msg = _json.loads(req.body.decode("utf-8"))
    except ValueError:
        msg = None
    if isinstance(msg, list):
        payload = [{"jsonrpc": "2.0", "id": m.get("id"), "result": {"token": (m.get("params") or [None])[0]}}
                   for m in msg if isinstance(m, dict) and m.get("id") is not None]
        text = _json.dumps(payload) if payload else ""
    elif isinstance(msg, dict) and msg.get("id") is not None:
        params = msg.get("params") or [None]
        tok = params[0] if isinstance(params, list) else params.get("token")
        reply = {"id": msg["id"], "result": {"token": tok}}
        if "jsonrpc" in msg:
            reply["jsonrpc"] = "2.0"
        else:
            reply["error"] = None
        text = _json.dumps(reply)
    else:
        text = ""
    body = text.encode("utf-8")
    return http_response(200, "OK", body, extra_headers, keep_alive, gzip_body, content_type)


def http_response(status, reason, body, extra_headers=(), keep_alive=True, gzip_body=False,
                  content_type="application/json-rpc", content_length=True):
    head = ["HTTP/1.1 %d %s" % (status, reason), "Content-Type: %s" % content_type]
    if gzip_body:
        import gzip
        body = gzip.compress(body)
        head.append("Content-Encoding: gzip")
    if content_length:
        head.append("Content-Length: %d" % len(body))
    head.append("Connection: %s" % ("keep-alive" if keep_alive else "close"))
    for k, v in extra_headers:
        head.append("%s: %s" % (k, v))
    return ("\r\n".join(head) + "\r\n\r\n").encode("latin-1") + body


class Peer(object):
    """
    decide(req) -> action dict:
      {"send": bytes, "close": bool}          reply (possibly partial) and keep or close the connection
      {"drop": True}                          close without a reply
      {"reset": True}                         abortive close (SO_LINGER 0)
    """

    def __init__(self, family="tcp", decide=None):
        self.family = family
        self.decide = decide or (lambda req: {"send": healthy_reply(req), "close": False})
        self.requests = []
        self.lock = _threading.Lock()
        self.connections = 0
        self.tmpdir = None
        self._stop = False
        self._listen()
        self.refusing = _threading.Event()      # set: the listener is closed
        self._want_refuse = False
        self._ack = _threading.Event()
        self.thread = _threading.Thread(target=self._accept_loop, name="vf-peer-accept")
        self.thread.daemon = True
        self.thread.start()

    def _listen(self):
        if self.family == "unix":
            if self.tmpdir is None:
                self.tmpdir = _tempfile.mkdtemp(prefix="vfp-")
                self.path = _os.path.join(self.tmpdir, "p.sock")
            if _os.path.exists(self.path):
                _os.unlink(self.path)
            s = _socket.socket(_socket.AF_UNIX, _socket.SOCK_STREAM)
            s.bind(self.path)
            self.addr = self.path
        else:
            s = _socket.socket(_socket.AF_INET, _socket.SOCK_STREAM)
            s.setsockopt(_socket.SOL_SOCKET, _socket.SO_REUSEADDR, 1)
            port = getattr(self, "port", 0)
            s.bind(("127.0.0.1", port))
            self.port = s.getsockname()[1]
            self.addr = ("127.0.0.1", self.port)
        s.listen(64)
        s.settimeout(0.02)
        self.sock = s

    @property
    def url(self):
        if self.family == "unix":
            return "unix+http://" + self.path
        return "http://127.0.0.1:%d" % self.port

    # the listener is owned by the accept thread: refuse()/accept_again() are acknowledged requests
    def refuse(self):
        self._ack.clear()
        self._want_refuse = True
        self._ack.wait(5)

    def accept_again(self):
        self._ack.clear()
        self._want_refuse = False
        self._ack.wait(5)

    def _accept_loop(self):
        while not self._stop:
            if self._want_refuse and self.sock is not None:
                self.sock.close()
                self.sock = None
                if self.family == "unix" and _os.path.exists(self.path):
                    _os.unlink(self.path)
                self.refusing.set()
                self._ack.set()
            elif not self._want_refuse and self.sock is None:
                self._listen()
                self.refusing.clear()
                self._ack.set()
            elif not self._ack.is_set():
                self._ack.set()
            if self.sock is None:
                _time.sleep(0.002)
                continue
            try:
                conn, _ = self.sock.accept()
            except (_socket.timeout, OSError):
                continue
            with self.lock:
                self.connections += 1
                cid = self.connections
            t = _threading.Thread(target=self._serve, args=(conn, cid), name="vf-peer-conn%d" % cid)
            t.daemon = True
            t.start()

    def _serve(self, conn, cid):
        conn.settimeout(30)
        buf = b""
        try:
            while True:
                while b"\r\n\r\n" not in buf:
                    data = conn.recv(65536)
                    if not data:
                        return
                    buf += data
                head, _, rest = buf.partition(b"\r\n\r\n")
                lines = head.split(b"\r\n")
                req = Request()
                req.raw_head = head
                req.line = lines[0].decode("latin-1")
                parts = req.line.split(" ")
                req.method = parts[0]
                req.target = parts[1] if len(parts) > 1 else ""
                req.headers = []
                for ln in lines[1:]:
                    k, _, v = ln.partition(b":")
                    req.headers.append((k.decode("latin-1"), v.decode("latin-1").strip()))
                length = 0
                for v in req.headers_named("Content-Length"):
                    # the library's own header comes first; later duplicates are what a check wants to see, not trust
                    try:
                        length = int(v)
                        break
                    except ValueError:
                        continue
                while len(rest) < length:
                    data = conn.recv(65536)
                    if not data:
                        break
                    rest += data
                req.body = rest[:length]
                buf = rest[length:]
                req.conn_id = cid
                with self.lock:
                    req.seq = len(self.requests)
                    self.requests.append(req)
                action = self.decide(req)
                if action.get("reset"):
                    conn.setsockopt(_socket.SOL_SOCKET, _socket.SO_LINGER, _struct.pack("ii", 1, 0))
                    return
                if action.get("drop"):
                    return
                if action.get("send"):
                    conn.sendall(action["send"])
                if action.get("then"):
                    # a second part of the same reply, sent a little later (e.g. the final reply behind an interim one)
                    _time.sleep(action["then"][0])
                    try:
                        conn.sendall(action["then"][1])
                    except OSError:
                        return
                if action.get("close", False):
                    try:
                        conn.shutdown(_socket.SHUT_WR)
                    except OSError:
                        pass
                    return
        except (OSError, _socket.timeout):
            return
        finally:
            try:
                conn.close()
            except OSError:
                pass

    def take(self):
        with self.lock:
            out = self.requests[:]
            del self.requests[:]
        return out

    def close(self):
        self._stop = True
        self.thread.join(2)
        if self.sock is not None:
            self.sock.close()
        if self.tmpdir:
            _shutil.rmtree(self.tmpdir, ignore_errors=True)
