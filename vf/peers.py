"""
Peers: in-process loopback transports, raw-socket HTTP peers (recording server,
scripted fault server, raw client).
"""


class CannedTransport(object):
    """Transport double that answers every request with a prepared text and
    records what it carried (the client boundary for crafted replies)."""

    def __init__(self, reply_text=""):
        self.reply_text = reply_text
        self.requests = []
        self.headers = []

    def push_headers(self, headers):
        self.headers.append(headers)

    def pop_headers(self, headers):
        self.headers.pop()

    def request(self, host, handler, request_body, verbose=0):
        self.requests.append((host, handler, request_body))
        if len(self.requests) > 64:
            del self.requests[:32]
        return self.reply_text

    def close(self):
        pass


class LoopbackTransport(object):
    """In-process transport: hands the request text to a dispatcher fixture and
    returns its output; records both texts (the server boundary for History checks)."""

    def __init__(self, fx):
        self.fx = fx
        self.exchanges = []
        self.headers = []

    def push_headers(self, headers):
        self.headers.append(headers)

    def pop_headers(self, headers):
        self.headers.pop()

    def request(self, host, handler, request_body, verbose=0):
        out = self.fx.dispatch(request_body)
        self.exchanges.append((request_body, out))
        return out

    def close(self):
        pass
