"""
Real-server fixtures: SimpleJSONRPCServer / PooledJSONRPCServer on TCP or Unix
listeners, served in a thread; a raw socket client that shows status, headers
and body bytes exactly as received.
"""

import contextlib
import os
import shutil
import socket
import tempfile
import threading


class Srv(object):
    def __init__(self, kind, family, fx, pool=None, handler=None):
        import jsonrpclib.SimpleJSONRPCServer as S
        self.kind, self.family, self.fx = kind, family, fx
        self.tmpdir = None
        kw = {"logRequests": False, "config": fx.config}
        if handler is not None:
            kw["requestHandler"] = handler
        if family == "unix":
            self.tmpdir = tempfile.mkdtemp(prefix="vfu-")
            addr = os.path.join(self.tmpdir, "s.sock")
            kw["address_family"] = socket.AF_UNIX
        else:
            addr = ("127.0.0.1", 0)
        if kind == "simple":
            self.server = S.SimpleJSONRPCServer(addr, **kw)
        else:
            if pool is not None:
                kw["thread_pool"] = pool
            self.server = S.PooledJSONRPCServer(addr, **kw)
        self.pool = pool
        fx.install(self.server)
        self.addr = self.server.socket.getsockname()
        self.thread = None

    @property
    def url(self):
        if self.family == "unix":
            return "unix+http://" + self.addr
        return "http://127.0.0.1:%d" % self.addr[1]

    def connect(self, timeout=30):
        if self.family == "unix":
            s = socket.socket(socket.AF_UNIX, socket.SOCK_STREAM)
        else:
            s = socket.socket(socket.AF_INET, socket.SOCK_STREAM)
            s.setsockopt(socket.IPPROTO_TCP, socket.TCP_NODELAY, 1)
        s.settimeout(timeout)
        s.connect(self.addr)
        return s

    def start(self):
        self.thread = threading.Thread(target=self.server.serve_forever, kwargs={"poll_interval": 0.02},
                                       name="vf-serve")
        self.thread.daemon = True
        self.thread.start()
        return self

    def stop(self):
        try:
            self.server.shutdown()
            self.server.server_close()
            if self.thread is not None:
                self.thread.join(30)
        finally:
            self.cleanup()

    def cleanup(self):
        if self.tmpdir:
            shutil.rmtree(self.tmpdir, ignore_errors=True)
            self.tmpdir = None


@contextlib.contextmanager
def running(kind, family, fx, pool=None, handler=None):
    srv = Srv(kind, family, fx, pool, handler)
    srv.start()
    try:
        yield srv
    finally:
        srv.stop()


def recv_all(sock):
    chunks = []
    while True:
        try:
            data = sock.recv(65536)
        except (ConnectionResetError, socket.timeout):
            break
        if not data:
            break
        chunks.append(data)
    return b"".join(chunks)


def parse_http(raw):
    """(status:int|None, headers:list[(name,value)], body:bytes)"""
    head, sep, body = raw.partition(b"\r\n\r\n")
    lines = head.split(b"\r\n")
    try:
        status = int(lines[0].split()[1])
    except (IndexError, ValueError):
        return None, [], raw
    headers = []
    for line in lines[1:]:
        name, _, value = line.partition(b":")
        headers.append((name.decode("latin-1").strip(), value.decode("latin-1").strip()))
    return status, headers, body


class RawClient(object):
    """One connection per request (the server speaks HTTP/1.0 and closes)."""

    def __init__(self, srv):
        self.srv = srv

    def post(self, body, path="/", segments=None, extra_headers=(), pause=None, declared_length=None,
             half_close=False):
        data = body.encode("utf-8") if isinstance(body, str) else body
        head = ("POST %s HTTP/1.1\r\nHost: localhost\r\nContent-Type: application/json-rpc\r\n"
                "Content-Length: %d\r\n" % (path, len(data) if declared_length is None else declared_length))
        for k, v in extra_headers:
            head += "%s: %s\r\n" % (k, v)
        head += "\r\n"
        sock = self.srv.connect()
        self.send_error = None
        try:
            try:
                sock.sendall(head.encode("latin-1"))
                if segments is None:
                    sock.sendall(data)
                else:
                    pos = 0
                    for cut in list(segments) + [len(data)]:
                        if cut > pos:
                            sock.sendall(data[pos:cut])
                            pos = cut
                            if pause:
                                pause()
                if half_close:
                    sock.shutdown(socket.SHUT_WR)
            except OSError as ex:
                # the server answered (or closed) before the whole body was sent: what it said is the observation
                self.send_error = "%s after %d of %d body bytes" % (type(ex).__name__, 0 if segments is None else pos,
                                                                    len(data))
            raw = recv_all(sock)
        finally:
            sock.close()
        status, headers, payload = parse_http(raw)
        if self.send_error and status is None:
            payload = ("<no reply; %s>" % self.send_error).encode()
        return status, headers, payload

    def close(self):
        pass
