"""
Reference oracles for the server side: strict JSON classification, response
well-formedness (C02), and an independent reference dispatcher that predicts,
per request entry, the response (or its absence) and the exact list of probe
invocations (C03, C04, C05, C13).
"""

import json

from vf import gen
from vf.probes import Spec

ANY = object()


# ---------------------------------------------------------------------------
# strict JSON

class _NonStandard(ValueError):
    pass


def _reject_constant(name):
    raise _NonStandard(name)


def parse_body(text):
    """
    ('ok', value) | ('malformed',) | ('outside',)
    'outside' = the text uses NaN/Infinity/-Infinity, which the stdlib parser
    tolerates (outside the domain of C02/C05), or hits an implementation limit.
    """
    try:
        value = json.loads(text, parse_constant=_reject_constant)
        # a standard numeral beyond the double range (1e999) is read as an infinity: as an argument it makes the
        # callable return a value that JSON cannot represent (outside C02/C05's domain); as an id it stays inside
        if nonfinite_outside_ids(value):
            return ("outside",)
        return ("ok", value)
    except _NonStandard:
        return ("outside",)
    except RecursionError:
        return ("outside",)
    except ValueError:
        try:
            json.loads(text)
        except ValueError:
            return ("malformed",)
        except RecursionError:
            return ("outside",)
        return ("outside",)


def _nonfinite(x):
    return type(x) is float and (x != x or x in (float("inf"), float("-inf")))


def _has_nonfinite(x):
    if type(x) is list:
        return any(_has_nonfinite(v) for v in x)
    if type(x) is dict:
        return any(_has_nonfinite(v) for v in x.values())
    return _nonfinite(x)


def nonfinite_outside_ids(value):
    entries = value if type(value) is list else [value]
    for e in entries:
        if type(e) is dict:
            if any(_has_nonfinite(v) for k, v in e.items() if k != "id"):
                return True
        elif _has_nonfinite(e):
            return True
    return False


def nonfinite_id(value):
    entries = value if type(value) is list else [value]
    return any(type(e) is dict and _has_nonfinite(e.get("id")) for e in entries)


# ---------------------------------------------------------------------------
# C02: well-formedness of one response object

def wellformed_response(obj):
    """Returns None when well-formed, else a short reason key."""
    if type(obj) is not dict:
        return "response-not-an-object"
    if "jsonrpc" in obj:
        if obj["jsonrpc"] != "2.0" or type(obj["jsonrpc"]) is not str:
            return "jsonrpc-member-not-2.0"
        if "id" not in obj:
            return "2.0-response-without-id"
        has_r, has_e = "result" in obj, "error" in obj
        if has_r == has_e:
            return "2.0-response-result-error-not-exactly-one"
        if has_e:
            return wellformed_error(obj["error"])
        return None
    for k in ("result", "error", "id"):
        if k not in obj:
            return "1.0-response-missing-" + k
    if obj["error"] is None:
        return None
    if obj["result"] is not None:
        return "1.0-error-response-with-non-null-result"
    return wellformed_error(obj["error"])


def wellformed_error(err):
    if type(err) is not dict:
        return "error-not-an-object"
    if "code" not in err or type(err["code"]) is not int:
        return "error-code-not-integer"
    if "message" not in err or type(err["message"]) is not str:
        return "error-message-not-string"
    return None


def wellformed_output(text):
    """
    Judges the dispatcher output text. Returns (reason_or_None, parsed).
    '' is fine; otherwise one response object or a non-empty array of them.
    """
    if type(text) is not str:
        return "output-not-text:" + type(text).__name__, None
    if text == "":
        return None, None
    try:
        val = json.loads(text, parse_constant=_reject_constant)
    except ValueError:
        return "output-not-json", None
    if type(val) is list:
        if not val:
            return "empty-array-output", val
        for item in val:
            r = wellformed_response(item)
            if r:
                return "batch:" + r, val
        return None, val
    return wellformed_response(val), val


# ---------------------------------------------------------------------------
# reference dispatcher

class RegModel(object):
    """
    funcs     {name: Spec}                                  flat registrations
    tree      {attr: Spec | dict | ('value', v)} or None    registered instance
    mode      'default' | 'custom' | 'instance-dispatch'
              custom: a dispatch function (method, params) resolving in `funcs`,
              raising LookupError for unknown names;
              instance-dispatch: the registered instance has a _dispatch method doing the same.
    """

    def __init__(self, funcs, tree=None, mode="default"):
        self.funcs = funcs
        self.tree = tree
        self.mode = mode

    def resolve(self, name):
        """Spec | ('value', v) | sub-tree dict (non-callable node) | None (unknown)"""
        if name in self.funcs:
            return self.funcs[name]
        if self.mode != "default" or self.tree is None:
            return None
        node = self.tree
        for seg in name.split("."):
            if seg.startswith("_"):
                return None
            if not isinstance(node, dict) or seg not in node:
                return None
            node = node[seg]
        return node


class Exp(object):
    """Expected response for one entry."""
    __slots__ = ("kind", "codes", "value", "id", "form", "msg_parts", "cls")

    def __init__(self, kind, cls, id=None, codes=(), value=ANY, form=None, msg_parts=()):
        self.kind, self.cls, self.id = kind, cls, id
        self.codes, self.value, self.form, self.msg_parts = codes, value, form, msg_parts

    def describe(self):
        return {"kind": self.kind, "class": self.cls, "id": gen.trepr(self.id), "codes": list(self.codes),
                "form": self.form, "value": "<any>" if self.value is ANY else self.value}


class Entry(object):
    """Reference outcome of one request entry."""
    __slots__ = ("exp", "invocations", "cls", "notification")

    def __init__(self, cls, exp=None, invocations=(), notification=False):
        self.cls, self.exp, self.invocations, self.notification = cls, exp, list(invocations), notification


def ref_entry(entry, reg, server_version):
    sform = "2.0" if server_version >= 2 else "1.0"
    if type(entry) is not dict:
        return Entry("invalid:not-object", Exp("error", "invalid", None, (-32600,), form=None))
    eid = entry.get("id") if "id" in entry else None
    if _has_nonfinite(eid):
        # an id that JSON cannot carry back (a numeral beyond the double range): not a usable id
        return Entry("invalid:id-not-representable", Exp("error", "invalid", None, (-32600,)))
    if "jsonrpc" not in entry and "id" not in entry:
        return Entry("invalid:no-version-marker", Exp("error", "invalid", None, (-32600,)))
    method = entry.get("method")
    params = entry["params"] if "params" in entry else []
    # a request object that carries "jsonrpc" is answered in the server's own form, valid or not;
    # without the member the form of an INVALID request is not judged
    iform = sform if "jsonrpc" in entry else None
    if not method or type(method) is not str:
        return Entry("invalid:method", Exp("error", "invalid", eid, (-32600,), form=iform))
    if type(params) not in (list, dict):
        return Entry("invalid:params", Exp("error", "invalid", eid, (-32600,), form=iform))
    form = sform if "jsonrpc" in entry else "1.0"
    notif = "id" not in entry or entry["id"] is None or (type(entry["id"]) is str and entry["id"] == "")
    args, kwargs = (params, {}) if type(params) is list else ([], params)

    def done(cls, exp, inv=()):
        if notif:
            return Entry("notification:" + cls, None, inv, True)
        return Entry(cls, exp, inv)

    target = reg.resolve(method)
    if reg.mode != "default":
        # custom dispatch: unknown names raise LookupError inside the function -> -32603
        if target is None:
            return done("custom-unknown", Exp("error", "custom-unknown", eid, (-32603,), form=form,
                                              msg_parts=("LookupError",)))
    elif target is None:
        return done("unknown-method", Exp("error", "unknown-method", eid, (-32601,), form=form))
    if not isinstance(target, Spec):
        # a name that resolves to a public attribute which is not callable names no method: unknown method
        return done("non-callable", Exp("error", "non-callable", eid, (-32601,), form=form))
    bound = target.bind(args, kwargs)
    if bound is None:
        codes = (-32602,) if reg.mode == "default" else (-32603,)
        return done("bad-arguments", Exp("error", "bad-arguments", eid, codes, form=form))
    inv = [(target.name, bound)]
    out = target.outcome(bound)
    if out[0] == "return":
        return done("ok", Exp("result", "ok", eid, value=out[1], form=form), inv)
    if out[0] == "fault":
        return done("returns-fault", Exp("error", "returns-fault", eid, (out[1],), form=form,
                                         msg_parts=("shared fault object",)), inv)
    if out[0] == "unconvertible":
        return done("unconvertible-result", Exp("error", "unconvertible-result", eid, (-32603,), form=form), inv)
    exc_cls, msg = out[1], out[2]
    try:
        text = str(exc_cls(msg)) if msg is not None else str(exc_cls())
    except TypeError:
        text = ""   # an exception whose text cannot be produced: only its type name is required in the message
    cls = "raises-TypeError" if exc_cls is TypeError else "raises"
    return done(cls, Exp("error", cls, eid, (-32603,), form=form,
                         msg_parts=(exc_cls.__name__, text)), inv)


def ref_dispatch(value, reg, server_version):
    """
    value: the strictly parsed body.
    Returns ('single', Entry) or ('batch', [Entry...]).
    """
    if not value:
        return ("single", Entry("invalid:empty", Exp("error", "invalid", None, (-32600,))))
    if type(value) is list:
        return ("batch", [ref_entry(e, reg, server_version) for e in value])
    return ("single", ref_entry(value, reg, server_version))


def expected_invocations(ref):
    if ref[0] == "single":
        return list(ref[1].invocations)
    out = []
    for e in ref[1]:
        out.extend(e.invocations)
    return out


def expected_responses(ref):
    if ref[0] == "single":
        return [ref[1]] if ref[1].exp is not None else []
    return [e for e in ref[1] if e.exp is not None]


def response_form(obj):
    return "2.0" if "jsonrpc" in obj else "1.0"


def compare_response(obj, entry):
    """
    Compares one (well-formed) response object with the reference entry.
    Returns a list of (aspect, reason) disagreements; aspects: id, code, form, value, message.
    """
    exp = entry.exp
    bad = []
    if not gen.teq(obj.get("id"), exp.id):
        bad.append(("id", "id %s instead of %s" % (gen.trepr(obj.get("id")), gen.trepr(exp.id))))
    if exp.form is not None and response_form(obj) != exp.form:
        bad.append(("form", "answered in %s form, expected %s" % (response_form(obj), exp.form)))
    err = obj.get("error")
    if exp.kind == "error":
        if err is None:
            bad.append(("code", "result instead of error %s" % (exp.codes,)))
        else:
            if err.get("code") not in exp.codes:
                bad.append(("code", "code %r instead of %s" % (err.get("code"), list(exp.codes))))
            else:
                for part in exp.msg_parts:
                    if part not in err.get("message", ""):
                        bad.append(("message", "message lacks %r" % (part,)))
    else:
        if err is not None:
            bad.append(("code", "error %r instead of a result" % (err.get("code"),)))
        elif exp.value is not ANY and not gen.teq(obj.get("result"), gen.jn(exp.value)):
            bad.append(("value", "result differs"))
    return bad
