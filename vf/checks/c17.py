"""
C17 - Wire framing is exact and body reassembly is independent of chunking.
"""

import gzip
import itertools
import json
import os
import subprocess
import sys
import zlib

from vf import core, gen, servers
from vf import dispatchmon as dm
from vf.peers import Peer, healthy_reply, http_response

LEVEL = "exploration"
SHARDS = {"quick": 8, "thorough": 16}
TIMEOUT = {"quick": 300, "thorough": 2400}
RULE = ("exchanges = (a) ServerProxy calls / notifications / batches with ASCII and multi-byte arguments of sizes 0, 1, "
        "1023-1025, 64 KiB sent to a raw recording peer (TCP and Unix) under generated URL paths and query strings "
        "(unreserved, sub-delims, percent-escapes; empty path; unix+http) and both content types; (b) 15 URL schemes; "
        "(c) request bodies sent by a raw client to real Simple/Pooled servers (default buffered handler, and a handler "
        "subclass with rbufsize = 0 whose reads come back short) in every single split point (small "
        "bodies) and random multi-splits, plus bodies just over the server's 10 MiB read chunk with a 2/3/4-byte "
        "character straddling the chunk boundary; (d) the real Transport.parse_response fed by a scripted read() object "
        "in every single split and random multi-splits, identity and gzip; gzip replies end to end; (e) the CGI "
        "handler's stdout captured in a subprocess. distinct = distinct (part, body, segmentation / URL); non-trivial = "
        "the captured bytes were compared with the independently known body / target / decoded text.")
ASSUMPTIONS = [
    "URL paths/queries without ';' parameters, '#' fragments or a trailing bare '?'",
    "the body that was 'actually sent' is known independently from the History text (client) or the submitted bytes (server)",
]
TECHNIQUE = "raw recording peer + scripted-segment raw client + scripted read() response object, compared with independently known bytes (runtime monitoring)"
LEVEL_TEXT = ("Raw sockets on both sides show the bytes the library emits and let the harness choose how received bytes "
              "are split: declared Content-Length vs. actual body bytes, Content-Type vs. Config, request target vs. URL, "
              "and decoded text vs. decoding of the whole body for every split point, for gzip, and across the server's "
              "10 MiB read-chunk boundary.")
LEVEL_NOTE = "Trusted: the raw peers' minimal HTTP parsing; zlib/gzip from the stdlib."

MB = ["é", "ß", "€", "中", "\U0001F600", "\U00010348", "aé€\U0001F600b"]
PATH_SEGS = ["", "rpc", "a.b", "~user", "x-y_z", "with%20space", "%C3%A9", "%2F", "!$&'()*+,=", ":@", "RPC2", "a" * 40]
QUERIES = ["", "a=1", "a=1&b=2", "q=%20x", "path=/a/b", "x=?y", "k=!$'()*,", "token=abc.def~", "%C3%A9=1", "flag"]
SCHEMES = [("http", True), ("https", True), ("unix+http", True), ("HTTP", True), ("Http", True), ("ftp", False),
           ("ws", False), ("file", False), ("unix+https", False), ("unix+ftp", False), ("unix", False),
           ("http+unix", False), ("gopher", False), ("jsonrpc", False), ("tcp", False)]


def text_values(rng):
    sizes = [0, 1, 2, 1023, 1024, 1025, 4096, 65536]
    out = []
    for n in sizes:
        out.append("a" * n)
        if n:
            ch = rng.choice(MB)
            out.append((ch * n)[:n])
            mix = "".join(rng.choice(["x", "é", "€", "\U0001F600"]) for _ in range(min(n, 3000)))
            out.append(mix)
    return out


# ---------------------------------------------------------------------------
# (a) client -> recording peer

def client_framing(ctx, rng):
    import jsonrpclib
    import jsonrpclib.config
    from jsonrpclib.history import History
    for fam in ("tcp", "unix"):
        peer = Peer(fam)
        try:
            for ctype in ("application/json-rpc", "application/json", "application/jsonrequest; charset=utf-8"):
                config = jsonrpclib.config.Config(content_type=ctype)
                urls = []
                if fam == "tcp":
                    for _ in range(ctx.pick(20, 120)):
                        segs = [rng.choice(PATH_SEGS[1:]) for _ in range(rng.randint(0, 3))]
                        path = ("/" + "/".join(segs)) if segs else rng.choice(["", "/"])
                        q = rng.choice(QUERIES)
                        urls.append((peer.url + path + ("?" + q if q else ""), (path or "/") + ("?" + q if q else "")))
                else:
                    for q in QUERIES[:ctx.pick(4, 10)]:
                        urls.append((peer.url + ("?" + q if q else ""), "/" + ("?" + q if q else "")))
                for ui, (url, target) in enumerate(urls):
                    history = History()
                    try:
                        if ui % 3 == 1:
                            # a transport supplied by the caller (pre-built, shared, or a subclass) instead of the
                            # one the proxy builds for itself
                            import jsonrpclib.jsonrpc as jr
                            tr = jr.UnixTransport(config=config, path=peer.path) if fam == "unix" else \
                                jr.Transport(config=config)
                            proxy = jsonrpclib.ServerProxy(url, transport=tr, history=history, config=config)
                            ctx.count("client-proxies-with-caller-supplied-transport")
                        else:
                            proxy = jsonrpclib.ServerProxy(url, history=history, config=config)
                    except Exception as ex:
                        ctx.violate("proxy-construction-raised-%s" % type(ex).__name__, {"part": "client", "url": url},
                                    {"raised": ex})
                        continue
                    if ui % 2 == 0:
                        # other clients of the same process, configured differently, are built in the meantime
                        decoys = [jsonrpclib.ServerProxy(url, config=jsonrpclib.config.Config(
                            content_type="application/x-other-client", user_agent="other")),
                            jsonrpclib.ServerProxy(url)]
                        ctx.count("client-proxies-used-after-other-clients-were-built")
                    vals = text_values(rng)
                    rng.shuffle(vals)
                    for v in vals[:ctx.pick(4, 12)]:
                        kind = rng.choice(["call", "notify", "batch"])
                        peer.take()
                        try:
                            if kind == "call":
                                proxy.echo(v, "é")
                            elif kind == "notify":
                                proxy._notify.echo(v)
                            else:
                                mc = jsonrpclib.MultiCall(proxy)
                                mc.echo(v)
                                mc._notify.echo("€")
                                mc()
                        except Exception as ex:
                            ctx.violate("client-request-raised-%s" % type(ex).__name__,
                                        {"part": "client", "url": url, "kind": kind, "len": len(v)}, {"raised": ex})
                            continue
                        reqs = peer.take()
                        case = {"part": "client", "family": fam, "url": url, "kind": kind, "arg_len": len(v),
                                "arg_head": v[:20], "content_type": ctype}
                        ctx.case(("client", fam, url, kind, v[:50], len(v), ctype))
                        ctx.count("judged:client-requests")
                        ctx.cell("client", fam, kind)
                        if len(reqs) != 1:
                            ctx.violate("client-sent-%d-requests" % len(reqs), case, {})
                            continue
                        req = reqs[0]
                        sent_text = history.requests[-1]
                        body = sent_text.encode("utf-8")
                        cl = req.headers_named("Content-Length")
                        if cl != [str(len(body))] or req.body != body:
                            ctx.violate("client-content-length-differs-from-body-bytes", case,
                                        {"declared": cl, "body_bytes_received": len(req.body), "text_bytes": len(body)})
                        ct = req.headers_named("Content-Type")
                        if ct != [ctype]:
                            ctx.violate("client-content-type-not-configured", case, {"content-type": ct})
                        if req.target != target or req.method != "POST":
                            ctx.violate("client-request-target-wrong", case, {"target": req.target, "expected": target})
                    proxy("close")()
        finally:
            peer.close()
    ctx.sample({"part": "client", "url": "http://127.0.0.1:PORT/a.b/%C3%A9?q=%20x", "expected_target": "/a.b/%C3%A9?q=%20x"})


SUPPORTED_SCHEMES = ("http", "https", "unix+http")
SCHEME_PIECES = ["unix+", "unix", "+", "u", "x", "n", "i", "http", "https", "s", "ftp", "HTTP", "Unix+", "-", "."]


def scheme_space():
    """The table above plus every concatenation of up to three pieces (look-alikes of the supported spellings)."""
    seen = {}
    for scheme, ok in SCHEMES:
        seen[scheme] = ok
    for n in (1, 2, 3):
        for combo in itertools.product(SCHEME_PIECES, repeat=n):
            sch = "".join(combo)
            if sch and sch[0].isalpha() and sch not in seen:
                seen[sch] = sch.lower() in SUPPORTED_SCHEMES
    return sorted(seen.items())


def schemes(ctx):
    import jsonrpclib
    import jsonrpclib.config
    import jsonrpclib.jsonrpc as jr
    cfg = jsonrpclib.config.Config()
    space = scheme_space()
    ctx.counters["schemes-enumerated"] = len(space)
    for idx, (scheme, ok) in enumerate(space):
        if not ctx.mine(idx):
            continue
        url = scheme + ("://127.0.0.1:1/rpc" if "unix" not in scheme.lower() else ":///tmp/vf-nonexistent.sock")
        # the proxy builds its own transport, or the caller supplies one (of either kind)
        for how, make in (("own", lambda: None), ("caller-tcp", lambda: jr.Transport(config=cfg)),
                          ("caller-unix", lambda: jr.UnixTransport(config=cfg, path="/tmp/vf-nonexistent.sock"))):
            ctx.case(("scheme", scheme, how))
            ctx.count("judged:schemes")
            ctx.cell("scheme", "supported" if ok else "unsupported", how)
            try:
                jsonrpclib.ServerProxy(url, transport=make())
                built = True
            except Exception as ex:
                built = False
                err = ex
            case = {"part": "scheme", "scheme": scheme, "transport": how}
            if built and not ok:
                ctx.violate("unsupported-scheme-accepted" + ("" if how == "own" else ":caller-supplied-transport"),
                            case, {})
            elif not built and ok:
                ctx.violate("supported-scheme-rejected", case, {"raised": err})


def digest(s):
    return [len(s), zlib.crc32(s.encode("utf-8"))]


def server_reassembly(ctx, rng):
    import time
    import jsonrpclib.config
    from jsonrpclib.SimpleJSONRPCServer import SimpleJSONRPCRequestHandler

    class UnbufferedHandler(SimpleJSONRPCRequestHandler):
        """A handler reading straight from the socket: read(n) returns what has arrived so far."""
        rbufsize = 0

    for kind in ("simple", "pooled"):
        for fam, handler in (("tcp", None), ("unix", None), ("tcp", UnbufferedHandler), ("unix", UnbufferedHandler)):
            ctype = rng.choice(["application/json-rpc", "application/json"])
            config = jsonrpclib.config.Config(content_type=ctype)
            fx = dm.Fixture(dm.std_reg("default"), version=2.0, config=config)
            with servers.running(kind, fam, fx, handler=handler) as srv:
                srv.server.register_function(digest, "digest")
                rc = servers.RawClient(srv)
                small = ['{"jsonrpc":"2.0","id":1,"method":"digest","params":["%s"]}' % s
                         for s in ("é", "a€b", "\U0001F600", "中文é")]
                for body in small:
                    data = body.encode("utf-8")
                    arg = json.loads(body)["params"][0]
                    splits = [[i] for i in range(1, len(data))]
                    splits += [sorted(rng.sample(range(1, len(data)), rng.randint(2, 6))) for _ in range(ctx.pick(5, 60))]
                    if handler is not None:
                        splits = splits[::7][:12]   # each segment is followed by a pause so that reads come back short
                    for seg in splits:
                        status, headers, payload = rc.post(data, segments=seg,
                                                           pause=(lambda: time.sleep(0.003)) if handler else None)
                        judge_server_reply(ctx, status, headers, payload, arg, ctype,
                                           {"part": "server", "server": kind, "family": fam, "body": body, "segments": seg,
                                            "unbuffered_handler": handler is not None},
                                           "split-short-reads" if handler else "split")
                # notifications / invalid bodies: framing of empty and error replies
                for body, label in (('{"jsonrpc":"2.0","method":"echo","params":["é"]}', "notification"),
                                    ('{"jsonrpc":"2.0","method"', "malformed"), ("", "empty")):
                    status, headers, payload = rc.post(body)
                    case = {"part": "server", "server": kind, "family": fam, "body": body}
                    ctx.case(("server-framing", kind, fam, body))
                    ctx.count("judged:server-replies")
                    check_reply_framing(ctx, status, headers, payload, ctype, case)
                # medium and large bodies
                for size in (1023, 1024, 1025, 65536):
                    arg = ("é€\U0001F600x" * size)[:size]
                    body = '{"jsonrpc":"2.0","id":1,"method":"digest","params":["%s"]}' % arg
                    data = body.encode("utf-8")
                    seg = sorted(rng.sample(range(1, len(data)), 8))
                    status, headers, payload = rc.post(data, segments=seg,
                                                       pause=(lambda: time.sleep(0.002)) if handler else None)
                    judge_server_reply(ctx, status, headers, payload, arg, ctype,
                                       {"part": "server", "server": kind, "family": fam, "body_len": len(data),
                                        "segments": seg, "unbuffered_handler": handler is not None},
                                       "medium-short-reads" if handler else "medium")
    ctx.sample({"part": "server", "body": '{"jsonrpc":"2.0","id":1,"method":"digest","params":["é"]}', "segments": [52]})


def straddle_bodies(ctx, rng, count):
    """Bodies just over the server's 10 MiB read chunk with a multi-byte character across the chunk boundary."""
    import jsonrpclib.config
    chunk = 10 * 1024 * 1024
    prefix = '{"jsonrpc":"2.0","id":1,"method":"digest","params":["'
    done = 0
    for ch in ["é", "€", "\U0001F600"]:
        enc = ch.encode("utf-8")
        for off in range(1, len(enc)):
            if done >= count:
                return
            done += 1
            # the character starts `off` bytes before the boundary
            fill = chunk - off - len(prefix.encode("utf-8"))
            arg = "a" * fill + ch + "tail"
            body = prefix + arg + '"]}'
            data = body.encode("utf-8")
            assert data[chunk - off:chunk - off + len(enc)] == enc
            kind = rng.choice(["simple", "pooled"])
            fam = rng.choice(["tcp", "unix"])
            config = jsonrpclib.config.Config()
            fx = dm.Fixture(dm.std_reg("default"), version=2.0, config=config)
            with servers.running(kind, fam, fx) as srv:
                srv.server.register_function(digest, "digest")
                rc = servers.RawClient(srv)
                status, headers, payload = rc.post(data)
            judge_server_reply(ctx, status, headers, payload, arg, config.content_type,
                               {"part": "server", "server": kind, "family": fam, "body_len": len(data),
                                "straddling_char_bytes": len(enc), "bytes_before_boundary": off}, "chunk-boundary")


def check_reply_framing(ctx, status, headers, payload, ctype, case):
    cl = [v for k, v in headers if k.lower() == "content-length"]
    ct = [v for k, v in headers if k.lower() == "content-type"]
    if cl != [str(len(payload))]:
        ctx.violate("server-content-length-differs-from-body-bytes", case, {"declared": cl, "body_bytes": len(payload)})
    if ct != [ctype]:
        ctx.violate("server-content-type-not-configured", case, {"content-type": ct, "configured": ctype})


def judge_server_reply(ctx, status, headers, payload, arg, ctype, case, label):
    ctx.case(("server", label, json.dumps(case, sort_keys=True, default=str)[:600]))
    ctx.count("judged:server-replies")
    ctx.cell("server", case.get("server"), case.get("family"), label)
    if status != 200:
        ctx.violate("server-reassembly-failed:http-%s:%s" % (status, label), case, {"payload": payload[:300]})
        return
    check_reply_framing(ctx, status, headers, payload, ctype, case)
    try:
        reply = json.loads(payload.decode("utf-8"))
    except ValueError:
        ctx.violate("server-reply-not-json:" + label, case, {"payload": payload[:200]})
        return
    if reply.get("result") != digest(arg):
        ctx.violate("server-decoded-text-differs-from-whole:" + label, case,
                    {"result": reply.get("result"), "expected": digest(arg), "error": reply.get("error")})


# ---------------------------------------------------------------------------
# (d) response parser

class ScriptedResponse(object):
    def __init__(self, chunks, headers):
        self.chunks = list(chunks)
        self.headers = headers

    def getheader(self, name, default=None):
        return self.headers.get(name.lower(), default)

    def read(self, amt=None):
        if amt is None:
            data, self.chunks = b"".join(self.chunks), []
            return data
        if not self.chunks:
            return b""
        c = self.chunks.pop(0)
        if len(c) > amt:
            self.chunks.insert(0, c[amt:])
            c = c[:amt]
        return c

    def close(self):
        pass


def response_parser(ctx, rng):
    import jsonrpclib.config
    import jsonrpclib.jsonrpc as jr
    tr = jr.Transport(jsonrpclib.config.Config())
    texts = ['{"jsonrpc": "2.0", "id": 1, "result": "é€\U0001F600"}', "é", "\U0001F600\U0001F600", "",
             json.dumps({"r": "中" * 700 + "é" * 400}, ensure_ascii=False), "a" * 3000 + "€" * 1000]
    for text in texts:
        data = text.encode("utf-8")
        splits = [[i] for i in range(1, min(len(data), 80))]
        for _ in range(ctx.pick(20, 300)):
            if len(data) > 2:
                splits.append(sorted(rng.sample(range(1, len(data)), rng.randint(1, min(8, len(data) - 1)))))
        splits.append([])
        for seg in splits:
            for enc in ("identity", "gzip"):
                raw = gzip.compress(data) if enc == "gzip" else data
                if enc == "gzip" and seg:
                    seg2 = [s for s in seg if s < len(raw)]
                else:
                    seg2 = seg
                cuts = [0] + list(seg2) + [len(raw)]
                chunks = [raw[a:b] for a, b in zip(cuts, cuts[1:]) if b > a]
                resp = ScriptedResponse(chunks, {"content-encoding": "gzip"} if enc == "gzip" else {})
                case = {"part": "parse_response", "text_head": text[:40], "text_len": len(text), "segments": seg2,
                        "encoding": enc}
                ctx.case(("parser", text[:60], len(text), tuple(seg2), enc))
                ctx.count("judged:parser-chunkings")
                ctx.cell("parser", enc)
                try:
                    out = tr.parse_response(resp)
                except Exception as ex:
                    ctx.violate("parse_response-raised-%s:%s" % (type(ex).__name__, enc), case, {"raised": ex})
                    continue
                if out != text:
                    ctx.violate("parse_response-text-differs-from-whole:" + enc, case,
                                {"got_len": len(out) if hasattr(out, "__len__") else None, "got_head": repr(out)[:80]})
    # gzip end to end through a real proxy
    import jsonrpclib
    for fam in ("tcp", "unix"):
        peer = Peer(fam, decide=lambda req: {"send": healthy_reply(req, gzip_body=True), "close": False})
        try:
            proxy = jsonrpclib.ServerProxy(peer.url)
            for v in ("é€", "x" * 5000, "\U0001F600" * 600, ""):
                ctx.case(("gzip-e2e", fam, v[:10], len(v)))
                ctx.count("judged:gzip-end-to-end")
                try:
                    out = proxy.echo(v)
                    if out != {"token": v}:
                        ctx.violate("gzip-reply-decoded-wrongly", {"part": "gzip-e2e", "family": fam, "len": len(v)},
                                    {"got": repr(out)[:100]})
                except Exception as ex:
                    ctx.violate("gzip-reply-raised-%s" % type(ex).__name__, {"part": "gzip-e2e", "family": fam}, {"raised": ex})
                reqs = peer.take()
                if reqs and "gzip" not in (reqs[-1].header("Accept-Encoding") or ""):
                    ctx.count("info:no-accept-encoding-gzip")
            proxy("close")()
        finally:
            peer.close()


# ---------------------------------------------------------------------------
# (e) CGI handler

CGI_SCRIPT = r'''
import sys, json, zlib
sys.path.insert(0, sys.argv[1])
import logging; logging.disable(logging.CRITICAL)
import jsonrpclib.config
from jsonrpclib.SimpleJSONRPCServer import CGIJSONRPCRequestHandler
bodies = json.loads(sys.stdin.read())
for ctype, body in bodies:
    h = CGIJSONRPCRequestHandler(config=jsonrpclib.config.Config(content_type=ctype))
    h.register_function(lambda s: [len(s), zlib.crc32(s.encode("utf-8"))], "digest")
    sys.stdout.buffer.write(b"\n==VF-BEGIN==\n"); sys.stdout.flush()
    h.handle_jsonrpc(body)
    sys.stdout.flush()
    sys.stdout.buffer.write(b"\n==VF-END==\n"); sys.stdout.flush()
'''


CGI_STDIN_SCRIPT = r'''
import sys, zlib
sys.path.insert(0, sys.argv[1])
import logging; logging.disable(logging.CRITICAL)
from jsonrpclib.SimpleJSONRPCServer import CGIJSONRPCRequestHandler
h = CGIJSONRPCRequestHandler()
h.register_function(lambda s: [len(s), zlib.crc32(s.encode("utf-8"))], "digest")
h.handle_request()
sys.stdout.flush()
'''


def cgi_stdin(ctx, rng):
    """The CGI entry point itself: the request arrives on stdin, CONTENT_LENGTH gives its length in BYTES, and the
    script must not consume what follows it (RFC 3875, 4.2)."""
    for arg in ("a", "é", "€" * 40, "\U0001F600" * 20, "x" * 2000 + "é"):
        for trailer in (b"", b"\nTRAILING-BYTES-THAT-ARE-NOT-PART-OF-THE-REQUEST" * 3):
            body = ('{"jsonrpc":"2.0","id":1,"method":"digest","params":["%s"]}' % arg).encode("utf-8")
            env = dict(os.environ, PYTHONIOENCODING="utf-8", REQUEST_METHOD="POST", CONTENT_LENGTH=str(len(body)),
                       CONTENT_TYPE="application/json-rpc")
            case = {"part": "cgi-stdin", "arg_head": arg[:10], "arg_len": len(arg), "trailing_bytes": len(trailer)}
            ctx.case(("cgi-stdin", arg[:10], len(arg), len(trailer)))
            ctx.count("judged:cgi-stdin-requests")
            ctx.cell("cgi-stdin", "multi-byte" if len(body) != len(body.decode("utf-8")) else "ascii",
                     "trailer" if trailer else "exact")
            try:
                proc = subprocess.run([sys.executable, "-B", "-c", CGI_STDIN_SCRIPT, core.REPO], input=body + trailer,
                                      capture_output=True, timeout=60, env=env)
            except subprocess.TimeoutExpired:
                ctx.violate("cgi-request-not-answered-within-60s", case, {})
                continue
            head, sep, payload = proc.stdout.partition(b"\n\n")
            if not sep:
                head, sep, payload = proc.stdout.partition(b"\r\n\r\n")
            try:
                reply = json.loads(payload.decode("utf-8"))
            except ValueError:
                ctx.violate("cgi-reply-not-json", case, {"stdout": proc.stdout[:300], "stderr": proc.stderr[-300:]})
                continue
            if reply.get("result") != digest(arg):
                ctx.violate("cgi-body-read-by-characters-not-bytes" if trailer else "cgi-reply-wrong", case,
                            {"reply": reply})


def cgi(ctx, rng):
    args = ["é", "a", "€" * 100, "\U0001F600" * 50, "x" * 5000 + "é"]
    bodies = []
    for a in args:
        for ctype in ("application/json-rpc", "application/json"):
            bodies.append((ctype, '{"jsonrpc":"2.0","id":1,"method":"digest","params":["%s"]}' % a))
    bodies.append(("application/json-rpc", '{"jsonrpc":"2.0","method":"digest","params":["é"]}'))
    bodies.append(("application/json-rpc", '{"bad json'))
    env = dict(os.environ, PYTHONIOENCODING="utf-8")
    proc = subprocess.run([sys.executable, "-B", "-c", CGI_SCRIPT, core.REPO], input=json.dumps(bodies).encode("utf-8"),
                          capture_output=True, timeout=60, env=env)
    if proc.returncode != 0:
        ctx.violate("cgi-handler-raised", {"part": "cgi"}, {"stderr": proc.stderr.decode("utf-8", "replace")[-600:]})
        return
    blocks = proc.stdout.split(b"\n==VF-BEGIN==\n")[1:]
    if len(blocks) != len(bodies):
        ctx.unsure("CGI capture: %d blocks for %d bodies" % (len(blocks), len(bodies)))
        return
    for (ctype, body), block in zip(bodies, blocks):
        out = block.split(b"\n==VF-END==\n")[0]
        head, sep, payload = out.partition(b"\n\n")
        if not sep:
            head, sep, payload = out.partition(b"\r\n\r\n")
        headers = {}
        for line in head.replace(b"\r\n", b"\n").split(b"\n"):
            k, _, v = line.partition(b":")
            headers[k.decode().strip().lower()] = v.decode().strip()
        case = {"part": "cgi", "body": body[:200], "content_type": ctype}
        ctx.case(("cgi", ctype, body[:80], len(body)))
        ctx.count("judged:cgi-replies")
        ctx.cell("cgi", ctype)
        if headers.get("content-length") != str(len(payload)):
            ctx.violate("cgi-content-length-differs-from-body-bytes", case,
                        {"declared": headers.get("content-length"), "body_bytes": len(payload)})
        if headers.get("content-type") != ctype:
            ctx.violate("cgi-content-type-not-configured", case, {"content-type": headers.get("content-type")})
        if '"id"' in body and "digest" in body:
            try:
                reply = json.loads(payload.decode("utf-8"))
                arg = json.loads(body)["params"][0]
                if reply.get("result") != digest(arg):
                    ctx.violate("cgi-reply-wrong", case, {"reply": reply})
            except ValueError:
                ctx.violate("cgi-reply-not-json", case, {"payload": payload[:200]})


def run(ctx):
    import socket
    socket.setdefaulttimeout(30)   # a hung exchange must surface as an exception, not as a dead shard
    rng = ctx.rng
    parts = [client_framing, server_reassembly, response_parser]
    for i, part in enumerate(parts):
        if ctx.mine(i) or ctx.nshards < len(parts):
            part(ctx, rng)
    # every shard adds random volume to each part in the thorough tier
    if not ctx.quick:
        for part in parts:
            part(ctx, rng)
    schemes(ctx)     # (shards the scheme space itself)
    if ctx.mine(3):
        cgi(ctx, rng)
    if ctx.mine(5):
        cgi_stdin(ctx, rng)
    if ctx.shard in (4 % ctx.nshards, 5 % ctx.nshards, 6 % ctx.nshards) or not ctx.quick:
        straddle_bodies(ctx, rng, ctx.pick(1, 6) if ctx.shard != 4 % ctx.nshards else ctx.pick(2, 6))


def finalize(m, tier):
    c = m["counters"]
    out = []
    for k, lo in (("judged:client-requests", 200), ("judged:server-replies", 300), ("judged:parser-chunkings", 500),
                  ("judged:schemes", 15), ("judged:cgi-replies", 8), ("judged:gzip-end-to-end", 8)):
        if c.get(k, 0) < lo:
            out.append("monitor counter %s too low (%d < %d)" % (k, c.get(k, 0), lo))
    if not any(x.endswith("split-short-reads") for x in m["cells"]):
        out.append("no segmented body was sent to an unbuffered (short-read) handler")
    if not any(x.endswith("chunk-boundary") for x in m["cells"]):
        out.append("no body across the server's read-chunk boundary was sent")
    return out


def replay(ctx, case):
    part = case.get("part")
    if part == "server" and "bytes_before_boundary" in case:
        straddle_bodies(ctx, ctx.rng, 6)
    elif part == "server":
        server_reassembly(ctx, ctx.rng)
    elif part == "client":
        client_framing(ctx, ctx.rng)
    elif part in ("parse_response", "gzip-e2e"):
        response_parser(ctx, ctx.rng)
    elif part == "cgi":
        cgi(ctx, ctx.rng)
    else:
        schemes(ctx)
