"""
C12 - Servers isolate concurrent clients and always shut down cleanly.
"""

import json
import socket
import sys
import threading
import time

from vf import core, gen, inject, oracle, servers, poolmon, steady
from vf import dispatchmon as dm
from vf.probes import Spec

LEVEL = "exploration"
SHARDS = {"quick": 10, "thorough": 16}
TIMEOUT = {"quick": 300, "thorough": 2400}
RULE = ("workloads = server in {Simple, Pooled with default pool, Pooled with user pool of size 1/2/5} x listener "
        "{TCP, Unix}; 2-16 client threads (<= 5 for the sequential server) each issuing 15-200 operations from {call, "
        "keyword call, notification, batch, invalid body (raw socket), HTTP request truncated below its Content-Length, "
        "failing method, slow method 1-20 ms}, every call "
        "carrying a unique token that the reply must echo; all jsonrpclib modules under line-level yield injection; a "
        "stall sweep parking a pool worker / the accept thread at each line of the pool's worker loop, enqueue and "
        "thread creation while requests arrive around the workers' idle timeout. "
        "Lifecycles (also on user-supplied pools whose bounded task queue is smaller than their number of permanent workers) "
        "= histories over {construct, serve in a thread, handle_request, shutdown, server_close}: close after "
        "serving, close with in-flight gate-blocked requests released afterwards, close without ever serving, repeated "
        "close, server_close alone while serving. Oracles: reply token = sent token, each token executed exactly once, "
        "requests after a bad one are served - also on ONE persistent connection kept open by a caller-supplied HTTP/1.1 "
        "request handler, after notifications, batches of notifications and malformed bodies -, lifecycle calls return (frozen-state witness otherwise), listening socket "
        "closed and pool workers gone afterwards. distinct = distinct (server cell, operation kind, token) for the "
        "client workloads and distinct (cell, lifecycle history) for the lifecycles; non-trivial = a reply was matched "
        "against its token or a lifecycle call was observed to return or freeze.")
ASSUMPTIONS = [
    "fault-free local network; the sequential server and Unix-socket listeners are driven by at most 5 concurrent "
    "clients (listen backlog 5: more simultaneous connects are refused by the OS with EAGAIN, a transport fault)",
    "'always terminates' is decided as bounded progress: a lifecycle call that has not returned while nothing moved "
    "for 3 s after all gates were released, with its stack parked in a blocking primitive, is a violation",
]
TECHNIQUE = "token-echo isolation monitor + exactly-once probe accounting + lifecycle call/return log with frozen-state witness (runtime monitoring)"
LEVEL_TEXT = ("Real Simple and Pooled servers on TCP and Unix sockets are driven by concurrent ServerProxy clients and raw "
              "sockets under schedule perturbation; unique tokens make cross-talk, loss and duplication visible; every "
              "lifecycle history is executed with call/return logging, stack sampling for hangs, and post-conditions on "
              "the listening socket and on the workers of the request pool.")
LEVEL_NOTE = "Trusted: probe log, token comparison, thread-name based worker liveness; bounded-progress restatement of 'always terminates'."

SERVER_CELLS = [("simple", None), ("pooled", None), ("pooled", 1), ("pooled", 2), ("pooled", 5)]
# user-supplied pools with a BOUNDED task queue smaller than their number of (permanent) workers: size -> queue_size.
# Only the lifecycles use them (at most 2 requests in flight): a bounded queue refuses work beyond its capacity by design
BOUNDED_QUEUE = {4: 1, 3: 2}
LIFECYCLE_CELLS = SERVER_CELLS + [("pooled", 4), ("pooled", 3)]
FAMILIES = ["tcp", "unix"]


def registry(gates):
    def slow_spec(name):
        return Spec(name, "token, ms=1")
    funcs = {
        "echo": Spec("echo", "token, payload=None", ("echo",)),
        "kwecho": Spec("kwecho", "**kw", ("echo",)),
        "fail": Spec("fail", "token", ("raise", ValueError, "token failure")),
        "note": Spec("note", "token", ("echo",)),
    }
    return oracle.RegModel(funcs, None, "default")


class SrvUnderTest(object):
    _serial = [0]

    def __init__(self, cell, family, gate=None, pool_timeout=0.05, handler=None):
        import jsonrpclib.threadpool as tp
        kind, psize = cell
        SrvUnderTest._serial[0] += 1
        self.poolname = "vfreqpool%d" % SrvUnderTest._serial[0]
        self.cell, self.family = cell, family
        # thread objects that exist before this server: anything else named like a pool worker is ours
        self.preexisting = set(threading.enumerate())
        self.fx = dm.Fixture(registry(None), version=2.0)
        self.user_pool = None
        if psize in BOUNDED_QUEUE:
            # a long idle timeout: these workers only wake up when the pool wakes them
            pool_timeout = 30
        if kind == "pooled" and psize is not None:
            # sizes 2 and 5 keep min_threads = max_threads: their workers only terminate if the server stops the pool
            self.user_pool = tp.ThreadPool(psize, psize if (psize > 1 and pool_timeout >= 0.05) else 0,
                                           queue_size=BOUNDED_QUEUE.get(psize, 0),
                                           timeout=pool_timeout, logname=self.poolname)
            self.user_pool.start()
        self.srv = servers.Srv(kind, family, self.fx, pool=self.user_pool, handler=handler)
        self.gate = gate
        self.in_gate = [0]
        # connections the serving loop has taken from the listener and handed over (to the request pool / handler):
        # counted at the server object's own boundary, so that "accepted before close" is observed, not timed
        self.accepted = [0]
        server = self.srv.server
        orig_process = server.process_request

        def counted_process_request(request, client_address):
            self.accepted[0] += 1
            return orig_process(request, client_address)
        server.process_request = counted_process_request
        log = self.fx.log
        run = self

        def slow(token, ms=1):
            log.add("slow", {"token": token})
            time.sleep(ms / 1000.0)
            return {"probe": "slow", "bound": {"token": token}}

        def gated(token):
            log.add("gated", {"token": token})
            run.in_gate[0] += 1
            if run.gate is not None:
                run.gate.wait(60)
            return {"probe": "gated", "bound": {"token": token}}
        def fail_exit(token):
            log.add("fail_exit", {"token": token})
            raise SystemExit("method called sys.exit()")

        def fail_interrupt(token):
            log.add("fail_interrupt", {"token": token})
            raise KeyboardInterrupt()
        self.srv.server.register_function(slow, "slow")
        self.srv.server.register_function(gated, "gated")
        self.srv.server.register_function(fail_exit, "fail_exit")
        self.srv.server.register_function(fail_interrupt, "fail_interrupt")

    def pool_workers(self):
        # workers of the request pool the server stops: the user pool (named) or the default one
        # thread names are not part of the pool's API: its workers are the threads that appeared after this server
        # was built and that the harness did not create
        return [t for t in threading.enumerate() if t not in self.preexisting and not t.name.startswith("vf-")
                and t.name != "MainThread"]


# ---------------------------------------------------------------------------
# concurrent clients

def client_thread(ctx_lock, results, sut, cid, nops, seed, bad_every):
    import random
    import jsonrpclib
    rng = random.Random(seed)
    proxy = jsonrpclib.ServerProxy(sut.srv.url)
    raw = servers.RawClient(sut.srv)
    counter = [0]

    def tok():
        counter[0] += 1
        return "c%d-%d" % (cid, counter[0])
    for i in range(nops):
        r = rng.random()
        rec = None
        try:
            if r < 0.35:
                t = tok()
                payload = gen.json_value(rng, 2, 3)
                out = proxy.echo(t, payload)
                rec = ("call", [t], [out["bound"]["token"]] if isinstance(out, dict) and "bound" in out else [repr(out)], 1)
                if isinstance(out, dict) and "bound" in out and not gen.teq(out["bound"].get("payload"), gen.jn(payload)):
                    rec = ("call", [t], ["<payload altered>"], 1)
            elif r < 0.45:
                t = tok()
                out = proxy.kwecho(token=t, x=i)
                rec = ("kwcall", [t], [out["bound"]["kw"]["token"]], 1)
            elif r < 0.55:
                t = tok()
                out = proxy._notify.note(t)
                rec = ("notification", [t], [t] if out is None else ["<answered %r>" % (out,)], 1)
            elif r < 0.7:
                toks = [tok() for _ in range(rng.randint(1, 4))]
                mc = jsonrpclib.MultiCall(proxy)
                for t in toks:
                    mc.echo(t)
                res = mc()
                rec = ("batch", toks, [x["bound"]["token"] for x in res], 1)
            elif r < 0.8:
                t = tok()
                # failing methods: an ordinary exception, sys.exit(), a KeyboardInterrupt raised by the method
                name = rng.choice(["fail", "fail", "fail", "fail_exit", "fail_interrupt"])
                try:
                    getattr(proxy, name)(t)
                    rec = ("failing", [t], ["<no error raised>"], 1)
                except jsonrpclib.ProtocolError:
                    rec = ("failing", [t], [t], 1)
            elif r < 0.9:
                t = tok()
                out = proxy.slow(t, rng.choice([1, 3, 8, 20]))
                rec = ("slow", [t], [out["bound"]["token"]], 1)
            elif r < 0.97:
                body = rng.choice(['{"jsonrpc": "2.0", "method"', "[", "", '{"jsonrpc": "2.0", "id": 1}', "[1]", "nul"])
                status, headers, payload = raw.post(body)
                good = status == 200 and b'"error"' in payload
                rec = ("invalid", [], [] if good else ["<status %s %r>" % (status, payload[:80])], 0)
            else:
                # malformed at the HTTP level: the body is shorter than the declared Content-Length and the client
                # half-closes; whatever the answer, the server must go on serving
                body = '{"jsonrpc": "2.0", "method": "echo", "params": ["trunc'
                status, headers, payload = raw.post(body, declared_length=len(body) + rng.choice([1, 7, 500]),
                                                    half_close=True)
                rec = ("truncated-http", [], [], 0)
        except BaseException as ex:  # noqa
            rec = ("exception", [], ["<%s: %s>" % (type(ex).__name__, str(ex)[:100])], 0)
        with ctx_lock:
            results.append((cid, i) + rec)
    try:
        proxy("close")()
    except Exception:
        pass


def clients_workload(ctx, rng, inj, cell, family):
    sut = SrvUnderTest(cell, family)
    sut.srv.start()
    # more simultaneous connection attempts than the listen backlog (5) is an OS-level refusal on Unix sockets
    # (EAGAIN at connect), i.e. a network fault, which this property excludes
    if cell[0] == "simple" or family == "unix":
        nclients = rng.randint(2, 5)
    else:
        nclients = rng.choice([2, 4, 8, 12, 16])
    nops = ctx.pick(rng.choice([15, 25, 40]), rng.choice([40, 100, 200]))
    results = []
    lock = threading.Lock()
    inj.configure("yield", seed=rng.randrange(1 << 30), p=rng.choice([0.0, 0.02, 0.08]))
    ths = [threading.Thread(target=client_thread, name="vf-client%d" % c,
                            args=(lock, results, sut, c, nops, rng.randrange(1 << 30), 7)) for c in range(nclients)]
    for t in ths:
        t.daemon = True
        t.start()
    # bounded progress: the clients are the only source of work; nothing answered for 8 s while some are still
    # waiting means the server stopped serving
    still = steady.Stillness(8.0, 150)
    t_begin = time.monotonic()
    while any(t.is_alive() for t in ths):
        time.sleep(0.02)
        if still.look(len(results)) is not None:
            break
        if time.monotonic() - t_begin > 300:
            ctx.unsure("clients workload: watchdog without a confirmed frozen state")
            inj.configure("none")
            sut.srv.cleanup()
            return 0
    inj.configure("none")
    stuck = [t.name for t in ths if t.is_alive()]
    case = {"cell": [cell[0], cell[1]], "family": family, "clients": nclients, "ops": nops}
    ctx.cell(cell[0], "pool%s" % cell[1], family, "clients")
    if stuck:
        kinds = [r[2] for r in results]
        ctx.violate("clients-not-served:%s%s" % (cell[0], ":after-truncated-http-request" if "truncated-http" in kinds else ""),
                    case, {"stuck": stuck, "answered": len(results), "stacks": poolmon.thread_stacks()})
        sut.srv.cleanup()
        return 0
    sent = []
    for cid, i, kind, toks, got, n in results:
        ctx.count("op:" + kind)
        ctx.case((cell, family, kind, tuple(toks), cid, i), nontrivial=True)
        if kind == "exception":
            ctx.violate("client-call-raised-on-fault-free-network", case, {"op": i, "client": cid, "what": got})
            continue
        if kind == "truncated-http":
            continue
        if kind == "invalid":
            if got:
                ctx.violate("invalid-body-not-answered-with-error", case, {"what": got})
            continue
        sent.extend(toks)
        ctx.count("judged:token-replies", len(toks))
        if got != toks:
            ctx.violate("reply-token-differs-from-sent:" + kind, case, {"sent": toks, "got": got, "client": cid})
    # exactly-once accounting (after the server went quiet)
    time.sleep(0.05)
    ran = [b["token"] if "token" in b else b.get("kw", {}).get("token") for n, b, _ in sut.fx.log.since(0)]
    import collections
    cr, cs = collections.Counter(ran), collections.Counter(sent)
    ctx.count("judged:exactly-once-accounting")
    ctx.count("tokens", len(sent))
    if cr != cs and not stuck:
        dup = [t for t in cr if cr[t] > cs.get(t, 0)]
        lost = [t for t in cs if cs[t] > cr.get(t, 0)]
        ctx.violate("executions-%s:%s" % ("duplicated" if dup and not lost else "lost" if lost and not dup else "differ",
                                          cell[0]), case, {"duplicated": dup[:5], "lost": lost[:5]})
    lifecycle_close(ctx, sut, case, ["shutdown", "server_close"], "after-clients")
    return len(sent)


# ---------------------------------------------------------------------------
# requests arriving while the request pool's workers go idle and retire (stall sweep)

def idle_gap_points():
    import jsonrpclib.threadpool as tp
    pts = []
    for qual, line in inject.statement_lines(tp):
        for fn, role in (("ThreadPool.__run", "worker"), ("ThreadPool.enqueue", "serve"),
                         ("ThreadPool.__start_thread", "serve")):
            if qual.endswith(fn):
                for k in (1, 2, 3, 5):
                    pts.append({"qualname": qual, "line": line, "role": role, "k": k})
    return pts


def idle_gap_workload(ctx, rng, inj, family, plan):
    import jsonrpclib
    cell = ("pooled", rng.choice([1, 2]))
    sut = SrvUnderTest(cell, family, pool_timeout=0.01)
    sut.srv.start()
    results = []
    lock = threading.Lock()
    if plan is None:
        # observation only: lets the injector learn which lines the workers execute when they retire and come back
        inj.configure("yield", seed=0, p=0.0)
        plan = {"qualname": "<learning>", "line": 0, "role": "worker", "k": 0}
    else:
        inj.configure("stall", seed=rng.randrange(1 << 30), plan=dict(plan, budget=10 ** 9, cap=0.04))
    hits0 = inj.hits

    def client(cid, seed):
        import random
        r = random.Random(seed)
        proxy = jsonrpclib.ServerProxy(sut.srv.url)
        for i in range(10):
            t = "g%d-%d" % (cid, i)
            try:
                out = proxy.echo(t)
                ok = out["bound"]["token"] == t
            except BaseException as ex:  # noqa
                ok = "raised %s" % type(ex).__name__
            with lock:
                results.append((t, ok))
            time.sleep(r.choice([0, 0.004, 0.009, 0.011, 0.013, 0.02, 0.035]))
        try:
            proxy("close")()
        except Exception:
            pass
    ths = [threading.Thread(target=client, args=(c, rng.randrange(1 << 30)), name="vf-client-gap%d" % c)
           for c in range(rng.choice([1, 1, 2]))]   # (a lone client: nobody else's request can rescue a stranded one)
    for t in ths:
        t.daemon = True
        t.start()
    frozen = False
    still = steady.Stillness(4.0, 150, sut.poolname)
    t_begin = time.monotonic()
    while any(t.is_alive() for t in ths):
        time.sleep(0.01)
        if still.look(len(results)) is not None:
            frozen = True
            break
        if time.monotonic() - t_begin > 120:
            ctx.unsure("idle-gap workload: watchdog without a confirmed frozen state")
            inj.configure("none")
            return
    inj.configure("none")
    case = {"cell": [cell[0], cell[1]], "family": family, "scenario": "idle-gap", "plan": plan}
    ctx.case(("idle-gap", family, plan["qualname"], plan["line"], plan["role"], plan["k"]), nontrivial=True)
    ctx.count("idle-gap-workloads")
    ctx.count("judged:token-replies", len(results))
    if inj.hits > hits0:
        ctx.count("idle-gap-stalls-hit")
        ctx.cell("idle-gap", plan["qualname"].split(".")[-1], plan["line"])
    if frozen:
        ctx.violate("request-never-answered:pooled:worker-retirement-window", case,
                    {"answered": len(results), "stacks": poolmon.thread_stacks(sut.poolname)})
        return
    bad = [r for r in results if r[1] is not True]
    if bad:
        ctx.violate("reply-token-differs-from-sent:idle-gap", case, {"bad": bad[:5]})
    lifecycle_close(ctx, sut, case, ["shutdown", "server_close"], "after-idle-gap")


# ---------------------------------------------------------------------------
# persistent connections: a caller-supplied request handler speaking HTTP/1.1 keeps the connection open, so that "serving
# subsequent requests" also means: on the SAME connection, after a notification, a batch of notifications, a bad body

def _read_reply(sock, buf):
    """One HTTP reply from a persistent connection: (status, headers dict, body) or (None, reason, b'')."""
    while b"\r\n\r\n" not in buf[0]:
        data = sock.recv(65536)
        if not data:
            return None, "closed-before-headers", b""
        buf[0] += data
    head, _, rest = buf[0].partition(b"\r\n\r\n")
    lines = head.split(b"\r\n")
    status = int(lines[0].split()[1])
    headers = {}
    for line in lines[1:]:
        k, _, v = line.partition(b":")
        headers[k.strip().lower().decode("latin-1")] = v.strip().decode("latin-1")
    if "content-length" not in headers:
        # nothing tells where this reply ends while the connection stays open: it cannot be told from "not answered"
        buf[0] = rest
        return status, headers, None
    n = int(headers["content-length"])
    while len(rest) < n:
        data = sock.recv(65536)
        if not data:
            return None, "closed-inside-body", b""
        rest += data
    buf[0] = rest[n:]
    return status, headers, rest[:n]


def keepalive_workload(ctx, rng, cell, family):
    import jsonrpclib.SimpleJSONRPCServer as S

    class KeepAliveHandler(S.SimpleJSONRPCRequestHandler):
        protocol_version = "HTTP/1.1"
    sut = SrvUnderTest(cell, family, handler=KeepAliveHandler)
    sut.srv.start()
    case = {"cell": [cell[0], cell[1]], "family": family, "scenario": "persistent-connection"}
    ctx.cell(cell[0], "pool%s" % cell[1], family, "persistent-connection")
    sock = None
    try:
        sock = sut.srv.connect(timeout=10)
        buf = [b""]
        kinds = ["call"] + [rng.choice(["call", "notification", "notifications-batch", "calls-batch", "malformed",
                                        "failing", "mixed-batch"]) for _ in range(ctx.pick(12, 40))] + ["call"]
        for i, kind in enumerate(kinds):
            tok = "k%d" % i
            call = {"jsonrpc": "2.0", "id": i, "method": "echo", "params": [tok]}
            note = {"jsonrpc": "2.0", "method": "note", "params": [tok]}
            body = {"call": call, "notification": note, "notifications-batch": [note, dict(note, params=[tok + "b"])],
                    "calls-batch": [call, dict(call, id="x%d" % i)], "failing": dict(call, method="fail"),
                    "mixed-batch": [note, call]}.get(kind)
            text = '{"jsonrpc": "2.0", "method"' if kind == "malformed" else json.dumps(body)
            data = text.encode("utf-8")
            sock.sendall(b"POST / HTTP/1.1\r\nHost: x\r\nContent-Type: application/json-rpc\r\nContent-Length: "
                         + str(len(data)).encode() + b"\r\n\r\n" + data)
            step = dict(case, step=i, kind=kind, sequence=kinds[:i + 1])
            ctx.count("judged:persistent-connection-replies")
            try:
                status, headers, payload = _read_reply(sock, buf)
            except (socket.timeout, OSError, ValueError, IndexError) as ex:
                ctx.violate("request-on-a-persistent-connection-not-answered:after-%s" % (kinds[i - 1] if i else "connect"),
                            step, {"raised": repr(ex)})
                return
            if status is None:
                ctx.violate("persistent-connection-closed-by-the-server:%s" % headers, step, {})
                return
            if payload is None:
                ctx.violate("reply-without-length-on-a-persistent-connection:to-%s" % kind, step, {"headers": headers})
                return
            if kind in ("notification", "notifications-batch"):
                ok = payload == b""
            else:
                try:
                    val = json.loads(payload.decode("utf-8"))
                except ValueError:
                    val = None
                if kind == "call":
                    ok = isinstance(val, dict) and val.get("id") == i and val.get("result", {}).get("bound", {}).get("token") == tok
                elif kind == "calls-batch":
                    ok = isinstance(val, list) and [v.get("id") for v in val] == [i, "x%d" % i]
                elif kind == "mixed-batch":
                    ok = isinstance(val, list) and [v.get("id") for v in val] == [i]
                elif kind == "failing":
                    ok = isinstance(val, dict) and val.get("id") == i and "error" in val
                else:
                    ok = isinstance(val, dict) and "error" in val
            if not ok:
                ctx.violate("reply-on-a-persistent-connection-is-not-the-answer-to-its-request:%s" % kind, step,
                            {"payload": payload[:200]})
                return
        ctx.case(("persistent", cell, family, tuple(kinds)), nontrivial=True)
    finally:
        if sock is not None:
            try:
                sock.close()
            except OSError:
                pass
        lifecycle_close(ctx, sut, case, ["shutdown", "server_close"], "after-persistent-connection")


# ---------------------------------------------------------------------------
# lifecycles

def call_with_watch(ctx, sut, name, fn, release=None):
    """Runs one lifecycle call in a thread; returns ('returned'|'raised:X'|'frozen', detail)."""
    box = {}

    def target():
        try:
            fn()
            box["out"] = "returned"
        except BaseException as ex:  # noqa
            box["out"] = "raised:" + type(ex).__name__
            box["exc"] = repr(ex)[:200]
    t = threading.Thread(target=target, name="vf-controller-" + name)
    t.daemon = True
    t.start()
    if release is not None:
        time.sleep(0.01)
        release()
    t0 = time.monotonic()
    still = steady.Stillness(3.0, 100, "PooledJSONRPCServer")
    while t.is_alive():
        t.join(0.01)
        verdict = still.look(sut.fx.log.mark())
        if verdict is not None:
            stacks = verdict["stacks"]
            return "frozen", {"stacks": stacks.get("vf-controller-" + name), "all": stacks}
        if time.monotonic() - t0 > 120:
            ctx.unsure("lifecycle call %s: watchdog without a confirmed frozen state" % name)
            return "unsure", {}
    return box.get("out", "returned"), {"exc": box.get("exc")}


def lifecycle_close(ctx, sut, case, ops, label, release=None):
    """Executes shutdown/server_close sequences and checks the post-conditions."""
    server = sut.srv.server
    served = sut.srv.thread is not None
    for op in ops:
        fn = server.shutdown if op == "shutdown" else server.server_close
        out, detail = call_with_watch(ctx, sut, op, fn, release if op == ops[0] else None)
        ctx.count("lifecycle:%s:%s" % (op, out.split(":")[0]))
        if out == "unsure":
            return False
        if out == "frozen":
            ctx.violate("%s-did-not-return:%s:%s" % (op, sut.cell[0], "never-served" if not served else label),
                        dict(case, lifecycle=ops, label=label), detail)
            return False
        if out.startswith("raised"):
            ctx.violate("%s-%s:%s" % (op, out, sut.cell[0]), dict(case, lifecycle=ops, label=label), detail)
            return False
    if "server_close" in ops:
        ctx.count("judged:post-close")
        # listening socket closed
        try:
            fileno = server.socket.fileno()
        except Exception:
            fileno = -1
        connectable = False
        try:
            s = sut.srv.connect(timeout=0.5)
            s.close()
            connectable = True
        except (OSError, socket.timeout):
            pass
        if fileno != -1 or connectable:
            ctx.violate("listening-socket-open-after-server_close:" + sut.cell[0],
                        dict(case, lifecycle=ops, label=label), {"fileno": fileno, "connect_succeeds": connectable})
        if sut.cell[0] == "pooled":
            # workers end on their own once the pool is stopped: waited for until the (responsive, see vf/steady.py)
            # machine shows the same worker stacks twice
            still = steady.Stillness(5.0, 150, sut.poolname)
            t0 = time.monotonic()
            while sut.pool_workers() and time.monotonic() - t0 < 120:
                time.sleep(0.01)
                if still.look(len(sut.pool_workers())) is not None:
                    break
            alive = [t.name for t in sut.pool_workers()]
            ctx.count("judged:pool-workers-terminated")
            if alive:
                ctx.violate("request-pool-workers-alive-after-server_close:%s" %
                            ("user-pool" if sut.user_pool is not None else "default-pool"),
                            dict(case, lifecycle=ops, label=label), {"alive": alive})
    if sut.srv.thread is not None:
        sut.srv.thread.join(5)
    sut.srv.cleanup()
    return True


LIFECYCLES = [
    ("serve+requests, shutdown, server_close", True, 3, False, ["shutdown", "server_close"]),
    ("serve+requests, shutdown, server_close, server_close", True, 2, False, ["shutdown", "server_close", "server_close"]),
    ("serve+requests, shutdown, shutdown, server_close", True, 2, False, ["shutdown", "shutdown", "server_close"]),
    ("serve, no request, shutdown, server_close", True, 0, False, ["shutdown", "server_close"]),
    ("serve+in-flight gated requests, shutdown, server_close", True, 2, True, ["shutdown", "server_close"]),
    ("serve+more in-flight gated requests than workers (the rest accepted and queued), shutdown, server_close",
     True, 2, "queued", ["shutdown", "server_close"]),
    ("serve+requests while a sibling server (own default pool) is served and closed, then requests, shutdown, "
     "server_close", True, 2, "sibling", ["shutdown", "server_close"]),
    ("never served, server_close", False, 0, False, ["server_close"]),
    ("never served, server_close, server_close", False, 0, False, ["server_close", "server_close"]),
    ("handle_request x2 (no serve_forever), server_close", "handle", 2, False, ["server_close"]),
    ("serve+requests, server_close alone (pooled servers stop themselves)", True, 2, False, ["server_close"]),
]


def sibling_lifecycle(ctx, rng, cell, family, lc):
    """Two pooled servers, each with the request pool it built for itself, alive at the same time: closing one must
    leave the other one serving, and closable."""
    import jsonrpclib
    label, serve, nreq, inflight, ops = lc
    a = SrvUnderTest(cell, family)
    b = SrvUnderTest(cell, family)
    case = {"cell": [cell[0], cell[1]], "family": family, "lifecycle_label": label}
    ctx.cell(cell[0], "pool%s" % cell[1], family, "lifecycle")
    ctx.case((cell, family, label), nontrivial=True)
    ctx.count("lifecycles")
    a.srv.start()
    b.srv.start()

    def ask(sut, tok, box):
        try:
            p = jsonrpclib.ServerProxy(sut.srv.url)
            box.append(p.echo(tok)["bound"]["token"] == tok)
            p("close")()
        except BaseException as ex:  # noqa
            box.append("raised %s" % type(ex).__name__)
    for sut, tok in ((a, "a0"), (b, "b0")):
        box = []
        ask(sut, tok, box)
        if box != [True]:
            ctx.violate("reply-token-differs-from-sent:lifecycle", case, {"replies": box})
    ok_b = lifecycle_close(ctx, b, case, ["shutdown", "server_close"], label + " [sibling]")
    # the first server is still serving: its requests must be answered (bounded progress: 4 s without an answer)
    answers = []
    th = threading.Thread(target=lambda: [ask(a, "a%d" % i, answers) for i in (1, 2, 3)], name="vf-client-sibling")
    th.daemon = True
    th.start()
    t0 = time.monotonic()
    still = steady.Stillness(4.0, 150, a.poolname)
    while th.is_alive():
        time.sleep(0.01)
        if still.look(len(answers)) is not None:
            break
        if time.monotonic() - t0 > 120:
            ctx.unsure("sibling lifecycle: watchdog without a confirmed frozen state")
            return
    ctx.count("judged:token-replies", len(answers))
    if answers != [True, True, True]:
        ctx.violate("clients-not-served:pooled:after-a-sibling-server-was-closed", case,
                    {"answers": answers, "sibling_closed_ok": ok_b, "stacks": poolmon.thread_stacks(a.poolname)})
        return
    lifecycle_close(ctx, a, case, ops, label)


def lifecycle(ctx, rng, cell, family, lc):
    import jsonrpclib
    label, serve, nreq, inflight, ops = lc
    if ops == ["server_close"] and serve is True and cell[0] == "simple":
        return  # closing a sequential server that is still serving is outside the stated histories
    if inflight == "queued" and (cell[0] != "pooled" or cell[1] is None or cell[1] in BOUNDED_QUEUE):
        return  # needs a request pool of known size with an unbounded queue
    if inflight == "sibling":
        if cell != ("pooled", None):
            return  # two servers that each build their OWN default request pool
        return sibling_lifecycle(ctx, rng, cell, family, lc)
    gate = threading.Event() if inflight else None
    sut = SrvUnderTest(cell, family, gate)
    case = {"cell": [cell[0], cell[1]], "family": family, "lifecycle_label": label}
    ctx.cell(cell[0], "pool%s" % cell[1], family, "lifecycle")
    ctx.case((cell, family, label), nontrivial=True)
    ctx.count("lifecycles")
    if serve is True:
        sut.srv.start()
        proxy = jsonrpclib.ServerProxy(sut.srv.url)
        for i in range(nreq if not inflight else 1):
            t = "lc%d" % i
            out = proxy.echo(t)
            if out["bound"]["token"] != t:
                ctx.violate("reply-token-differs-from-sent:lifecycle", case, {})
        proxy("close")()
    elif serve == "handle":
        for i in range(nreq):
            th = threading.Thread(target=sut.srv.server.handle_request, name="vf-serve-once")
            th.daemon = True
            th.start()
            proxy = jsonrpclib.ServerProxy(sut.srv.url)
            # (a request that is accepted but never answered ends in the socket timeout set in run())
            try:
                out = proxy.echo("h%d" % i)
            except BaseException as ex:  # noqa
                ctx.violate("request-through-handle_request-not-answered:%s:raised-%s" % (cell[0], type(ex).__name__), case,
                            {"raised": ex, "stacks": poolmon.thread_stacks(sut.poolname)})
                try:
                    proxy("close")()
                except Exception:  # noqa
                    pass
                # the close sequence may hang behind the stranded request: it is judged (with its frozen-state
                # witness) like any other lifecycle
                lifecycle_close(ctx, sut, case, ops, label + " [after an unanswered request]")
                return
            proxy("close")()
            th.join(10)
            if out["bound"]["token"] != "h%d" % i:
                ctx.violate("reply-token-differs-from-sent:handle_request", case, {})
    release = None
    flyers = []
    if inflight:
        n_in = 1 if cell[0] == "simple" else min(2, cell[1] or 2)
        busy = n_in
        if inflight == "queued":
            busy = cell[1]               # every worker inside the gate ...
            n_in = cell[1] + 2           # ... and two more requests accepted and waiting in the pool's queue

        def flyer(i):
            p = jsonrpclib.ServerProxy(sut.srv.url)
            try:
                out = p.gated("g%d" % i)
                ok = out["bound"]["token"] == "g%d" % i
            except BaseException as ex:  # noqa
                ok = "raised %s" % type(ex).__name__
            flyers.append(ok)
        accepted_before = sut.accepted[0]
        ths = [threading.Thread(target=flyer, args=(i,), name="vf-client-flyer%d" % i) for i in range(n_in)]
        for t in ths:
            t.daemon = True
            t.start()
        # the scenario needs `busy` requests inside the gate and all n_in connections ACCEPTED by the serving loop
        # (observed at process_request) before the close sequence starts; if the machine does not get there, the
        # scenario is not judged
        t0 = time.monotonic()
        while (sut.in_gate[0] < busy or sut.accepted[0] < accepted_before + n_in) and time.monotonic() - t0 < 60:
            time.sleep(0.002)
        if sut.in_gate[0] < busy or sut.accepted[0] < accepted_before + n_in:
            ctx.unsure("in-flight scenario not established: %d/%d in the gate, %d/%d accepted"
                       % (sut.in_gate[0], busy, sut.accepted[0] - accepted_before, n_in))
            gate.set()
            lifecycle_close(ctx, sut, case, ops, label)
            return
        if inflight == "queued":
            time.sleep(0.05)             # (the accepted connections are being queued by the serving loop)
        release = gate.set
    ok = lifecycle_close(ctx, sut, case, ops, label, release)
    if inflight and ok:
        for t in ths:
            t.join(60)
        ctx.count("judged:in-flight-replies", len(flyers))
        if flyers != [True] * len(ths):
            ctx.violate("in-flight-request-lost-at-close:" + cell[0], case, {"replies": flyers})
    if not ok and gate is not None:
        gate.set()


def concurrent_close(ctx, rng, cell, family):
    """server_close() called again (by another thread) while a first server_close() is still waiting for in-flight
    requests: whichever call returns, returns from a CLOSED server - the in-flight requests are answered, the listening
    socket is closed and the workers of the request pool are gone."""
    import jsonrpclib
    gate = threading.Event()
    sut = SrvUnderTest(cell, family, gate)
    case = {"cell": [cell[0], cell[1]], "family": family, "scenario": "second-close-during-the-first"}
    ctx.cell(cell[0], "pool%s" % cell[1], family, "concurrent-close")
    ctx.case(("concurrent-close", cell, family), nontrivial=True)
    sut.srv.start()
    flyers = []

    def flyer(i):
        p = jsonrpclib.ServerProxy(sut.srv.url)
        try:
            out = p.gated("g%d" % i)
            flyers.append(out["bound"]["token"] == "g%d" % i)
        except BaseException as ex:  # noqa
            flyers.append("raised %s" % type(ex).__name__)
    n_in = min(2, cell[1] or 2)
    ths = [threading.Thread(target=flyer, args=(i,), name="vf-client-flyer%d" % i) for i in range(n_in)]
    for t in ths:
        t.daemon = True
        t.start()
    t0 = time.monotonic()
    while sut.in_gate[0] < n_in and time.monotonic() - t0 < 60:
        time.sleep(0.002)
    if sut.in_gate[0] < n_in:
        ctx.unsure("concurrent-close scenario not established")
        gate.set()
        lifecycle_close(ctx, sut, case, ["shutdown", "server_close"], "concurrent-close")
        return
    server = sut.srv.server
    server.shutdown()
    returned = {}

    def closer(name):
        try:
            server.server_close()
            returned[name] = {"gate_open": gate.is_set(), "answered": len(flyers),
                              "workers": [t.name for t in sut.pool_workers()]}
        except BaseException as ex:  # noqa
            returned[name] = {"raised": repr(ex)}
    a = threading.Thread(target=closer, args=("first",), name="vf-controller-close-a")
    b = threading.Thread(target=closer, args=("second",), name="vf-controller-close-b")
    for t, pause in ((a, 0.15), (b, 0.25)):
        t.daemon = True
        t.start()
        time.sleep(pause)
    early = {k: v for k, v in returned.items() if not v.get("gate_open", True)}
    gate.set()
    for t in (a, b):
        t.join(60)
    for t in ths:
        t.join(60)
    ctx.count("judged:concurrent-closes")
    if a.is_alive() or b.is_alive():
        ctx.violate("server_close-did-not-return:pooled:second-close-during-the-first", case,
                    {"stacks": poolmon.thread_stacks(sut.poolname)})
        return
    for name, info in returned.items():
        if "raised" in info:
            ctx.violate("server_close-raised:pooled:second-close-during-the-first", case, {name: info})
    if early:
        ctx.violate("server_close-returned-before-the-in-flight-requests-completed:second-close-during-the-first", case,
                    {"returned_early": early})
    if flyers != [True] * n_in:
        ctx.violate("in-flight-request-lost-at-close:" + cell[0], case, {"replies": flyers})
    lifecycle_close(ctx, sut, case, ["server_close"], "after-concurrent-closes")


def run(ctx):
    import jsonrpclib.SimpleJSONRPCServer as S
    import jsonrpclib.jsonrpc as J
    import jsonrpclib.threadpool as T
    socket.setdefaulttimeout(30)   # a stranded exchange must surface as an exception, not as a dead shard
    rng = ctx.rng
    inj = inject.Injector([S, J, T])
    inj.install()
    sys.setswitchinterval(1e-5)
    combos = [(c, f) for c in SERVER_CELLS for f in FAMILIES]
    # 1. concurrent clients: every (server cell, family) in every run
    reps = ctx.pick(1, 30)
    n = 0
    for rep in range(reps):
        for cell, fam in combos:
            n += 1
            if not ctx.mine(n):
                continue
            if ctx.time_left() < 20:
                ctx.unsure("time budget exhausted in the client workloads")
                break
            clients_workload(ctx, rng, inj, cell, fam)
    # 1b. stall sweep: requests arriving while pool workers retire
    # the pool-module lines that pool workers and the accept thread were seen executing in the workloads above
    import jsonrpclib.threadpool as tpmod
    for fam in FAMILIES:
        idle_gap_workload(ctx, rng, inj, fam, None)
    pool_lines = set(inject.statement_lines(tpmod))
    # functions are learned (no method name is assumed), their statement lines are then enumerated statically so that
    # every shard partitions the same list
    roles_of = {}
    for (q, l, r) in inj.seen:
        if (q, l) in pool_lines and r in ("worker", "serve"):
            roles_of.setdefault(q, set()).add(r)
    pts = [{"qualname": q, "line": l, "role": r, "k": k} for (q, l) in sorted(pool_lines) if q in roles_of
           for r in sorted(roles_of[q]) for k in (1, 2, 3)]
    ctx.counters["idle-gap-stall-points-enumerated"] = len(pts)
    if not pts:
        pts = idle_gap_points()
    mine = [pt for i, pt in enumerate(pts) if ctx.mine(i)]
    rng.shuffle(mine)
    for pt in mine[:ctx.pick(70, 10 ** 6)]:
        if ctx.time_left() < 60:
            ctx.unsure("time budget exhausted in the idle-gap sweep")
            break
        idle_gap_workload(ctx, rng, inj, rng.choice(FAMILIES), pt)
    # 1c. persistent (HTTP/1.1) connections through a caller-supplied request handler: every (cell, family)
    inj.configure("none")
    n = 0
    for rep in range(ctx.pick(1, 10)):
        for cell, fam in combos:
            n += 1
            if ctx.mine(n):
                keepalive_workload(ctx, rng, cell, fam)
    # 1d. a second server_close() while the first one waits for in-flight requests (pooled servers)
    n = 0
    for rep in range(ctx.pick(1, 8)):
        for cell, fam in combos:
            if cell[0] != "pooled" or cell[1] in BOUNDED_QUEUE:
                continue
            n += 1
            if ctx.mine(n):
                concurrent_close(ctx, rng, cell, fam)
    # 2. lifecycles
    n = 0
    for rep in range(ctx.pick(1, 16)):
        for cell, fam in [(c, f) for c in LIFECYCLE_CELLS for f in FAMILIES]:
            for lc in LIFECYCLES:
                n += 1
                if not ctx.mine(n):
                    continue
                if ctx.time_left() < 15:
                    ctx.unsure("time budget exhausted in the lifecycles")
                    break
                lifecycle(ctx, rng, cell, fam, lc)
    ctx.counters["monitored-lines-executed"] = inj.snapshot()["lines"]
    inj.uninstall()
    ctx.sample({"cell": ["pooled", 2], "family": "unix", "lifecycle": LIFECYCLES[4][0]})
    ctx.sample({"cell": ["simple", None], "family": "tcp", "client_ops": ["call", "batch", "invalid", "failing", "slow"]})


def finalize(m, tier):
    c = m["counters"]
    out = []
    for k, lo in (("judged:token-replies", 1000), ("judged:exactly-once-accounting", 10), ("lifecycles", 60),
                  ("judged:post-close", 60), ("op:invalid", 20), ("op:batch", 50), ("op:failing", 30),
                  ("judged:in-flight-replies", 8), ("idle-gap-stalls-hit", 30)):
        if c.get(k, 0) < lo:
            out.append("monitor counter %s too low (%d < %d)" % (k, c.get(k, 0), lo))
    return out


def replay(ctx, case):
    cell = (case["cell"][0], case["cell"][1])
    fam = case["family"]
    if "lifecycle_label" in case:
        for lc in LIFECYCLES:
            if lc[0] == case["lifecycle_label"]:
                lifecycle(ctx, ctx.rng, cell, fam, lc)
        return
    import jsonrpclib.SimpleJSONRPCServer as S
    inj = inject.Injector([S])
    inj.install()
    for _ in range(5):
        clients_workload(ctx, ctx.rng, inj, cell, fam)
    inj.uninstall()
