"""
C18 - Custom headers compose by recency and are restored after a block.
"""

import copy
import itertools
import json

from vf import gen
from vf.peers import Peer, healthy_reply

LEVEL = "exploration"
SHARDS = {"quick": 8, "thorough": 16}
OPTIMIZED_SHARDS = 2      # the last two shards run under `python -O` (the library's assert statements are stripped)
TIMEOUT = {"quick": 240, "thorough": 1800}
RULE = ("stacks = 0-4 header dictionaries (constructor headers + nested _additional_headers blocks) over 7 base names in "
        "random letter case, including content-length, Content-TYPE and user-agent, with str / int / float / bool / None "
        "values; requests = call, notification, MultiCall batch, over TCP and Unix recording peers; block histories = "
        "every enter/leave sequence of depth <= 3 with each of the 2^k normal/exceptional exit patterns, and sequences of "
        "sibling blocks on one proxy whose dictionaries compare equal but print differently (1/True/1.0); dictionaries "
        "(constructor and block ones, empty or not) filled, changed or emptied after they were pushed. Oracles: a "
        "12-line reference merge (oldest -> newest, last writer per lower-cased name wins, str() values) against the "
        "header lines exactly as received by the raw peer; Content-Length/Content-Type single and correct; User-Agent "
        "configured unless overridden; deep snapshot of the transport's header stack before entering == after leaving. "
        "distinct = distinct (stack, request kind, exit pattern); non-trivial = at least one pushed header and the "
        "received header lines were compared with the reference merge.")
ASSUMPTIONS = [
    "two of the shards run under `python -O` (see OPTIMIZED_SHARDS): what the library does inside assert statements is not relied upon",
    "no single dictionary holds two case variants of one name (the property does not order entries inside one dict)",
    "Host and Accept-Encoding are emitted by http.client itself and are not generated as custom names",
    "header values are printable ASCII without surrounding whitespace",
]
TECHNIQUE = "recording raw-socket peer + reference header merge + before/after stack snapshots (runtime monitoring)"
LEVEL_TEXT = ("A real ServerProxy sends to a raw recording peer that keeps header lines exactly as received; an "
              "independent reference merge decides which value each pushed name must carry; the transport's header "
              "stack is deep-snapshotted around every block, for normal and exceptional exits in all nesting patterns.")
LEVEL_NOTE = "Trusted: the reference merge in vf/checks/c18.py; the raw peer's header parser (split on CRLF and first colon)."

BASE_NAMES = ["X-Test", "X-Other", "Authorization", "X-Trace-Id", "content-length", "Content-Type", "User-Agent"]
VALUES = ["a", "v 1", "tok=abc;q", "0", 7, 0, 1.5, True, False, None, "x" * 60, "UPPER", "123"]


class Marker(Exception):
    pass


def rand_case(rng, name):
    mode = rng.random()
    if mode < 0.3:
        return name
    if mode < 0.5:
        return name.lower()
    if mode < 0.65:
        return name.upper()
    return "".join(c.upper() if rng.random() < 0.5 else c.lower() for c in name)


def gen_dict(rng):
    d = {}
    for name in rng.sample(BASE_NAMES, rng.randint(0, 4)):
        d[rand_case(rng, name)] = rng.choice(VALUES)
    return d


def ref_merge(stack):
    merged = {}
    for d in stack:
        for k, v in d.items():
            merged[str(k).lower()] = str(v)
    return merged


def check_request(ctx, req, stack, body_text, config, case, kind):
    """req: peers.Request as received."""
    merged = ref_merge(stack)
    ctx.count("judged:requests")
    got = {}
    for k, v in req.headers:
        got.setdefault(k.lower(), []).append(v)
    for name, value in merged.items():
        if name in ("content-length", "content-type"):
            continue
        vals = got.get(name, [])
        if not vals:
            ctx.violate("pushed-header-missing" + (":user-agent" if name == "user-agent" else "")
                        + (":dictionary-filled-after-it-was-pushed" if case.get("scenario") == "filled-after-push" else ""), case,
                        {"name": name, "received": req.headers})
        elif len(vals) > 1:
            ctx.violate("pushed-header-duplicated" + (":user-agent" if name == "user-agent" else ""), case,
                        {"name": name, "values": vals})
        elif vals[0] != value:
            superseded = [str(v) for d in stack for k, v in d.items() if str(k).lower() == name]
            key = "superseded-value-sent" if vals[0] in superseded else "header-value-altered"
            # which shape: same name pushed under different letter case?
            variants = set(k for d in stack for k in d if str(k).lower() == name)
            if key == "superseded-value-sent" and len(variants) > 1:
                key += ":case-variants"
            ctx.violate(key, case, {"name": name, "sent": vals[0], "expected": value, "stack": stack})
    # nothing else of the harness's header names may be on the wire (a header of a block that was left)
    known = set(n.lower() for n in BASE_NAMES) | {"x-flag"} | set(n.lower() + "-late" for n in BASE_NAMES[:4])
    stray = sorted(k for k in got if k in known and k not in merged
                   and k not in ("content-length", "content-type", "user-agent")
                   and not (k == "authorization" and case.get("credentials")))
    if stray:
        ctx.violate("header-not-in-force-was-sent", case, {"stray": {k: got[k] for k in stray}, "stack": stack})
    cl = got.get("content-length", [])
    body_len = len(req.body)
    if len(cl) != 1 or cl[0] != str(len(body_text.encode("utf-8"))) or body_len != len(body_text.encode("utf-8")):
        ctx.violate("content-length-overridden-or-duplicated", case, {"content-length": cl, "body_bytes": body_len})
    ct = got.get("content-type", [])
    if len(ct) != 1 or ct[0] != config.content_type:
        ctx.violate("content-type-overridden-or-duplicated", case, {"content-type": ct})
    if "user-agent" not in merged:
        ua = got.get("user-agent", [])
        if ua != [config.user_agent]:
            ctx.violate("user-agent-not-the-configured-one", case, {"user-agent": ua, "configured": config.user_agent})


def send(ctx, rng, proxy, peer, history, stack, config, case, kind=None):
    """One request; every third one is sent from a thread that did not build the proxy (the headers in force belong
    to the proxy, not to the thread that pushed them)."""
    import threading
    send.n = getattr(send, "n", 0) + 1
    if send.n % 3 == 0 and threading.current_thread().name != "vf-other-thread":
        kind = kind or rng.choice(["call", "call", "notify", "batch"])
        t = threading.Thread(target=_send, args=(ctx, rng, proxy, peer, history, stack, config,
                                                 dict(case, sent_from="another thread"), kind), name="vf-other-thread")
        t.start()
        t.join(120)
        ctx.count("requests-sent-from-another-thread")
        return
    _send(ctx, rng, proxy, peer, history, stack, config, case, kind)


def _send(ctx, rng, proxy, peer, history, stack, config, case, kind=None):
    import jsonrpclib
    kind = kind or rng.choice(["call", "call", "notify", "batch"])
    peer.take()
    n0 = len(history.requests)
    try:
        if kind == "call":
            proxy.echo("t", 1)
        elif kind == "notify":
            proxy._notify.echo("n")
        else:
            mc = jsonrpclib.MultiCall(proxy)
            mc.echo("b1")
            mc._notify.echo("b2")
            mc.echo("b3")
            mc()
    except BaseException as ex:  # noqa
        ctx.violate("request-raised-%s" % type(ex).__name__, dict(case, request=kind), {"raised": ex})
        return
    reqs = peer.take()
    if len(reqs) != 1 or len(history.requests) != n0 + 1:
        ctx.violate("expected-one-http-request", dict(case, request=kind), {"received": len(reqs)})
        return
    check_request(ctx, reqs[0], stack, history.requests[-1], config, dict(case, request=kind), kind)


def snapshot(proxy):
    """The transport's stack of pushed header dictionaries (None when this implementation keeps it elsewhere: the
    requests sent after every block exit are then the only - and sufficient - observation of the headers in force)."""
    stack = getattr(proxy("transport"), "additional_headers", None)
    return copy.deepcopy(stack) if isinstance(stack, list) else None


def restore(proxy, before):
    stack = getattr(proxy("transport"), "additional_headers", None)
    if isinstance(stack, list) and before is not None:
        stack[:] = copy.deepcopy(before)


def run_blocks(ctx, rng, proxy, peer, history, config, ctor, dicts, pattern, case):
    """Nested blocks dicts[0..k-1]; pattern[i] True = block i is left through an exception."""
    def enter(level, stack):
        before = snapshot(proxy)
        try:
            with proxy._additional_headers(dicts[level]) as p:
                inner = stack + [dicts[level]]
                send(ctx, rng, p, peer, history, inner, config, dict(case, level=level))
                if level + 1 < len(dicts):
                    enter(level + 1, inner)
                    # after the inner block: the headers in force are again those of this level
                    send(ctx, rng, p, peer, history, inner, config, dict(case, level=level, after_inner=True))
                if pattern[level]:
                    raise Marker()
        except Marker:
            pass
        except BaseException as ex:  # noqa
            ctx.violate("leaving-a-block-raised-%s" % type(ex).__name__, dict(case, level=level),
                        {"raised": ex, "before": before, "now": snapshot(proxy)})
            restore(proxy, before)
            return
        after = snapshot(proxy)
        ctx.count("judged:block-exits")
        if after != before:
            how = "exception" if pattern[level] else "normal-exit"
            ctx.violate("headers-not-restored-on-" + how, dict(case, level=level),
                        {"before": before, "after": after})
            # repair the stack so that later checks of this proxy stay meaningful
            restore(proxy, before)
    enter(0, [ctor])
    send(ctx, rng, proxy, peer, history, [ctor], config, dict(case, level=-1, after_all=True))


def run(ctx):
    import socket
    socket.setdefaulttimeout(30)   # a hung exchange must surface as an exception, not as a dead shard
    import jsonrpclib
    import jsonrpclib.config
    from jsonrpclib.history import History
    rng = ctx.rng
    families = ["tcp", "unix"]
    for fam in families:
        peer = Peer(fam)
        try:
            # 1. stacks 0-4
            for i in range(ctx.pick(400, 10000)):
                depth = rng.randint(0, 4)
                dicts = [gen_dict(rng) for _ in range(depth)]
                for j in range(2, depth):
                    if rng.random() < 0.3:
                        dicts[j] = dict(rng.choice(dicts[:j - 1]))
                config = jsonrpclib.config.Config(user_agent=rng.choice([None, "vf-agent/1.0"]),
                                                  content_type=rng.choice(["application/json-rpc", "application/json"]))
                history = History()
                ctor = dicts[0] if depth else None
                proxy = jsonrpclib.ServerProxy(peer.url, headers=ctor, history=history, config=config)
                stack = [ctor or {}] + dicts[1:]
                case = {"family": fam, "stack": stack, "scenario": "stack"}
                ctx.case(("stack", fam, gen.trepr(stack)), nontrivial=any(stack))
                ctx.cell(fam, "stack-depth-%d" % depth)
                cms = [proxy._additional_headers(d) for d in dicts[1:]]
                try:
                    for cm in cms:
                        cm.__enter__()
                    for kind in ("call", "notify", "batch"):
                        send(ctx, rng, proxy, peer, history, stack, config, case, kind)
                finally:
                    for lvl, cm in enumerate(reversed(cms)):
                        before_exit = snapshot(proxy)
                        try:
                            cm.__exit__(None, None, None)
                        except BaseException as ex:  # noqa
                            ctx.violate("leaving-a-block-raised-%s" % type(ex).__name__, case,
                                        {"raised": ex, "stack_before_exit": before_exit})
                            break
                        ctx.count("judged:block-exits")
                proxy("close")()
                if i == 0:
                    ctx.sample(case)
            # 2. the directed recency case: one name under three letter cases
            for names in (("x-test", "X-Test", "x-test"), ("X-Test", "x-test", "X-TEST"), ("User-Agent", "user-agent"),
                          ("authorization", "Authorization", "AUTHORIZATION", "authorization")):
                stack = [{n: "v%d" % i} for i, n in enumerate(names)]
                config = jsonrpclib.config.Config()
                history = History()
                proxy = jsonrpclib.ServerProxy(peer.url, headers=stack[0], history=history, config=config)
                cms = [proxy._additional_headers(d) for d in stack[1:]]
                for cm in cms:
                    cm.__enter__()
                case = {"family": fam, "stack": stack, "scenario": "case-variants"}
                ctx.case(("variants", fam, names))
                send(ctx, rng, proxy, peer, history, stack, config, case, "call")
                for cm in reversed(cms):
                    try:
                        cm.__exit__(None, None, None)
                    except BaseException as ex:  # noqa
                        ctx.violate("leaving-a-block-raised-%s" % type(ex).__name__, case, {"raised": ex})
                        break
                proxy("close")()
            # 3. block histories: depth <= 3, all exit patterns
            for rep in range(ctx.pick(2, 120)):
                for k in (1, 2, 3):
                    for pattern in itertools.product((False, True), repeat=k):
                        config = jsonrpclib.config.Config()
                        history = History()
                        ctor = gen_dict(rng)
                        # half of the TCP proxies carry credentials in the URL (an Authorization header of their own)
                        cred = fam == "tcp" and rng.random() < 0.5
                        url = peer.url.replace("http://", "http://user:secret@") if cred else peer.url
                        proxy = jsonrpclib.ServerProxy(url, headers=ctor, history=history, config=config)
                        dicts = [gen_dict(rng) for _ in range(k)]
                        # equal dictionaries pushed again at non-adjacent positions (A-B-A stacks)
                        for j in range(k):
                            if rng.random() < 0.35:
                                dicts[j] = dict(rng.choice([ctor] + dicts[:j]))
                        case = {"family": fam, "ctor": ctor, "blocks": dicts, "exits": list(pattern),
                                "scenario": "blocks", "credentials": cred}
                        ctx.case(("blocks", fam, gen.trepr([ctor] + dicts), pattern))
                        ctx.cell(fam, "blocks-%d" % k, "".join("E" if p else "n" for p in pattern))
                        run_blocks(ctx, rng, proxy, peer, history, config, ctor, dicts, pattern, case)
                        proxy("close")()
            # 4. histories on ONE proxy: sibling blocks whose dictionaries compare equal but print differently
            #    (1 / True / 1.0, 0 / False / 0.0), same names and changing letter case, with and without requests between
            families = [[1, True, 1.0], [0, False, 0.0], ["a", "a"], [7, 7.0], ["x", "X"]]
            for rep in range(ctx.pick(6, 120)):
                config = jsonrpclib.config.Config()
                history = History()
                ctor = gen_dict(rng) if rng.random() < 0.5 else {}
                cred = fam == "tcp" and rng.random() < 0.5
                url = peer.url.replace("http://", "http://user:secret@") if cred else peer.url
                proxy = jsonrpclib.ServerProxy(url, headers=ctor, history=history, config=config)
                fam_vals = rng.choice(families)
                name = rng.choice(["X-Flag", "X-Test", "Authorization"])
                seq = []
                for _ in range(rng.randint(3, 7)):
                    d = {rand_case(rng, name) if rng.random() < 0.3 else name: rng.choice(fam_vals)}
                    if rng.random() < 0.3:
                        d["X-Other"] = rng.choice(VALUES)
                    seq.append(d)
                case = {"family": fam, "ctor": ctor, "sibling_blocks": seq, "scenario": "siblings", "credentials": cred}
                ctx.case(("siblings", fam, gen.trepr([ctor] + seq)))
                ctx.cell(fam, "sibling-blocks")
                for d in seq:
                    try:
                        with proxy._additional_headers(d) as p:
                            send(ctx, rng, p, peer, history, [ctor, d], config, case)
                            if rng.random() < 0.3:
                                raise Marker()
                    except Marker:
                        pass
                    if rng.random() < 0.4:
                        send(ctx, rng, proxy, peer, history, [ctor], config, dict(case, between_blocks=True))
                proxy("close")()
            # 5. dictionaries filled or changed AFTER they were pushed (handed to the constructor / to the block):
            #    the stack holds the caller's dictionaries, a request carries what they define when it is sent
            for rep in range(ctx.pick(40, 1500)):
                config = jsonrpclib.config.Config()
                history = History()
                ctor = gen_dict(rng) if rng.random() < 0.5 else {}
                block = gen_dict(rng) if rng.random() < 0.5 else {}
                proxy = jsonrpclib.ServerProxy(peer.url, headers=ctor, history=history, config=config)
                case = {"family": fam, "ctor_as_given": dict(ctor), "block_as_given": dict(block),
                        "scenario": "filled-after-push"}
                ctx.cell(fam, "filled-after-push", "ctor-%s" % ("empty" if not ctor else "set"))

                def change(d):
                    how = rng.choice(["add", "add", "set", "del"]) if d else "add"
                    if how == "add":
                        d[rand_case(rng, rng.choice(BASE_NAMES[:4])) + "-Late"] = rng.choice(VALUES)
                    elif how == "set":
                        d[rng.choice(sorted(d))] = rng.choice(VALUES)
                    else:
                        del d[rng.choice(sorted(d))]
                    return how
                steps = []
                try:
                    steps.append(("ctor", change(ctor)))
                    send(ctx, rng, proxy, peer, history, [ctor], config, dict(case, steps=list(steps), ctor_now=dict(ctor)))
                    with proxy._additional_headers(block) as p:
                        steps.append(("block", change(block)))
                        if rng.random() < 0.5:
                            steps.append(("ctor", change(ctor)))
                        send(ctx, rng, p, peer, history, [ctor, block], config,
                             dict(case, steps=list(steps), ctor_now=dict(ctor), block_now=dict(block)))
                    steps.append(("left-block", None))
                    send(ctx, rng, proxy, peer, history, [ctor], config, dict(case, steps=list(steps), ctor_now=dict(ctor)))
                except BaseException as ex:  # noqa
                    ctx.violate("request-raised-%s" % type(ex).__name__, case, {"raised": ex, "steps": steps})
                ctx.case(("filled-after-push", fam, gen.trepr([case["ctor_as_given"], case["block_as_given"], steps,
                                                                ctor, block])))
                proxy("close")()
            ctx.exhaustive["exit patterns (normal/exceptional) of nested blocks up to depth 3"] = True
        finally:
            peer.close()


def finalize(m, tier):
    c = m["counters"]
    out = []
    for k, lo in (("judged:requests", 2000), ("judged:block-exits", 300)):
        if c.get(k, 0) < lo:
            out.append("monitor counter %s too low (%d < %d)" % (k, c.get(k, 0), lo))
    return out


def replay(ctx, case):
    import jsonrpclib
    import jsonrpclib.config
    from jsonrpclib.history import History
    peer = Peer(case.get("family", "tcp"))
    try:
        config = jsonrpclib.config.Config()
        history = History()
        if case.get("scenario") == "blocks":
            proxy = jsonrpclib.ServerProxy(peer.url, headers=case["ctor"], history=history, config=config)
            run_blocks(ctx, ctx.rng, proxy, peer, history, config, case["ctor"], case["blocks"], case["exits"], case)
        else:
            stack = case["stack"]
            proxy = jsonrpclib.ServerProxy(peer.url, headers=stack[0], history=history, config=config)
            cms = [proxy._additional_headers(d) for d in stack[1:]]
            for cm in cms:
                cm.__enter__()
            for kind in ("call", "notify", "batch"):
                send(ctx, ctx.rng, proxy, peer, history, stack, config, case, kind)
    finally:
        peer.close()
