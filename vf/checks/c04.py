"""
C04 - Notifications are executed exactly once and never answered.
"""

import json
import time

from vf import gen, oracle, reqgen, poolcheck, steady
from vf import dispatchmon as dm
from vf.peers import LoopbackTransport

LEVEL = "exploration"
SHARDS = {"quick": 8, "thorough": 16}
TIMEOUT = {"quick": 180, "thorough": 1500}
RULE = ("requests = notification shapes {2.0 without id, id null, id ''; 1.0 id null, id ''} x {alone, every position of "
        "batches mixed with calls / invalid / failing entries} x outcome {returns, raises, unknown method, bad "
        "arguments, TypeError in body, unconvertible result} x dispatch {default, custom function, instance _dispatch} x "
        "server version {1.0,2.0} x notification pool {absent, real ThreadPool max 1..3 / min 0..max} with the pool "
        "module under line-level yield injection and a stall sweep over enqueue/__run; client _notify and MultiCall "
        "_notify over a loopback transport. distinct = distinct (configuration, body); non-trivial = the body holds at "
        "least one notification entry and both monitors (response alignment, probe-invocation accounting after the "
        "pool drained) ran.")
RULE += (" " + 'Also: positional params reaching the dispatcher as a tuple (twin of the same notification with a list); a method raising an exception whose text cannot be produced; the notification pool stopped while notifications execute, restarted, then lone notifications.')
ASSUMPTIONS = [
    "a notification is a valid request whose id is absent, null or ''",
    "pooled executions are compared as multisets after the pool drained (bounded-progress wait), inline ones in order",
    "for unknown methods only 'never answered' and 'nothing ran' apply",
]
TECHNIQUE = "reference dispatcher + probe-invocation accounting on inline and pooled notifications, pool under delay injection (runtime monitoring)"
LEVEL_TEXT = ("Every generated body runs on the real dispatcher, with notifications inline or on a real ThreadPool whose "
              "code is perturbed by the injector; the monitor checks that no response object is attributable to a "
              "notification entry and that each notification's probe ran exactly once (per-body after draining, and "
              "again by a final multiset accounting per fixture).")
LEVEL_NOTE = "Trusted: oracle.ref_dispatch; probe log; drain = wait for the expected count under the frozen-state rule."

POOLS = [None, (1, 0), (1, 1), (2, 0), (2, 1), (2, 2), (3, 0), (3, 3)]
MODES = ("default", "custom", "instance-dispatch")

OUTCOMES = {
    "returns": [("echo", [1, "a"]), ("kw", {"x": 1}), ("const0", []), ("noargs", None), ("pub", [None]),
                ("sub.inner", {"x": 3}), ("é", [])],
    "raises": [("fail", []), ("failkey", [1]), ("failos", {}), ("failempty", None), ("sub.fail", []),
               ("fail", {"a": 1}), ("failuser", {"x": None, "y": [2]}),
               # (an exception whose text cannot be produced: reporting it must not turn into an answer)
               ("failstr", []), ("failstr", {"a": 1})],
    "unknown": [("nosuch", []), ("_priv", [1]), ("sub._hidden", None), ("no.such", {})],
    "badargs": [("two", []), ("two", [1, 2, 3]), ("noargs", [1]), ("two", {"c": 1}), ("kwonly", [1, 2])],
    "typeerror": [("failtype", []), ("failtype", [1, 2]), ("failtype", {"a": 1}), ("failtype", {"x": 0, "y": "s"})],
    "unconvertible": [("badresult", []), ("badresult2", []), ("badresult3", []), ("badresult", {"k": 1})],
}


def notification(rng, outcome, shape, mode):
    m, p = rng.choice(OUTCOMES[outcome])
    if mode != "default" and "." in m and m != "ns.sum":
        m, p = {"returns": ("echo", [2]), "raises": ("fail", []), "unknown": ("nosuch", [])}.get(outcome, (m, p))
    if mode != "default" and m in ("pub", "_priv"):
        m = "nosuch" if outcome == "unknown" else "echo"
        p = [] if outcome == "unknown" else p
    e = {"method": m}
    if p is not None:
        e["params"] = p
    if shape == "2.0-noid":
        e["jsonrpc"] = "2.0"
    elif shape == "2.0-null":
        e["jsonrpc"] = "2.0"
        e["id"] = None
    elif shape == "2.0-empty":
        e["jsonrpc"] = "2.0"
        e["id"] = ""
    elif shape == "1.0-null":
        e["id"] = None
    else:
        e["id"] = ""
    return e


SHAPES = ["2.0-noid", "2.0-null", "2.0-empty", "1.0-null", "1.0-empty"]


def routed_dispatcher_class():
    """A user subclass of the dispatcher overriding the documented extension point _dispatch (here a pass-through that
    keeps count): whatever the dispatcher executes - also on the notification pool - goes through the override."""
    from jsonrpclib.SimpleJSONRPCServer import SimpleJSONRPCDispatcher

    class Routed(SimpleJSONRPCDispatcher):
        def __init__(self, *args, **kwargs):
            self.routed = []
            SimpleJSONRPCDispatcher.__init__(self, *args, **kwargs)

        def _dispatch(self, method, params, config=None):
            self.routed.append(method)
            return SimpleJSONRPCDispatcher._dispatch(self, method, params, config)
    return Routed


class PooledFixture(object):
    def __init__(self, cfg, serial):
        import jsonrpclib.threadpool as tp
        v, mode, pool = cfg
        self.tp_pool = None
        if pool is not None:
            self.tp_pool = tp.ThreadPool(pool[0], pool[1], timeout=0.01, logname="vfpoolN%d" % serial)
            self.tp_pool.start()
        # half of the default-mode fixtures are built on a user subclass that overrides _dispatch
        self.routed = mode == "default" and serial % 2 == 0
        self.fx = dm.Fixture(dm.std_reg(mode), version=v, pool=self.tp_pool,
                             dispatcher_class=routed_dispatcher_class() if self.routed else None)
        self.expected_total = []

    def close(self, ctx, cfg):
        """Final accounting: everything the reference expected, nothing else, ran - as multisets."""
        fx = self.fx
        want = sorted(dm.inv_repr(self.expected_total))
        deadline = time.monotonic() + 120
        last = -1
        last_change = time.monotonic()
        still = steady.Stillness(2.0, 300, "vfpoolN")
        while time.monotonic() < deadline:
            n = fx.log.mark()
            if n >= len(want) and n == last and time.monotonic() - last_change > 0.03:
                break
            if n != last:
                last, last_change = n, time.monotonic()
            if still.look(n) is not None:
                break
            time.sleep(0.002)
        got = sorted(dm.inv_repr(fx.log.since(0)))
        ctx.count("monitor:final-accounting")
        if self.routed:
            ctx.count("monitor:overridden-_dispatch-accounting")
            if len(fx.dispatcher.routed) < len(got):
                ctx.violate("invocations:executed-without-going-through-the-overridden-_dispatch:%s"
                            % ("pooled" if self.tp_pool else "inline"),
                            {"config": [cfg[0], cfg[1], list(cfg[2]) if cfg[2] else None], "bclass": "final-accounting"},
                            {"probe_invocations": len(got), "calls_of_the_override": len(fx.dispatcher.routed)})
        if got != want:
            import collections
            cg, cw = collections.Counter(map(tuple, got)), collections.Counter(map(tuple, want))
            twice = [k for k in cg if cg[k] > cw.get(k, 0)]
            lost = [k for k in cw if cw[k] > cg.get(k, 0)]
            kind = "run-twice" if twice and not lost else "not-run" if lost and not twice else "different"
            ctx.violate("invocations:final-accounting:%s:%s" % (kind, "pooled" if self.tp_pool else "inline"),
                        {"config": [cfg[0], cfg[1], list(cfg[2]) if cfg[2] else None], "bclass": "final-accounting"},
                        {"ran_more": twice[:5], "ran_less": lost[:5]})
        if self.tp_pool is not None:
            self.tp_pool.stop()


def drain(fx, mark0, want):
    """Bounded-progress wait for `want` probe invocations since mark0 (frozen = nothing moved for 2 s)."""
    t0 = time.monotonic()
    still = steady.Stillness(2.0, 500, "vfpoolN")
    while True:
        n = fx.log.mark() - mark0
        if n >= want:
            return
        if still.look(n) is not None or time.monotonic() - t0 > 120:
            return
        time.sleep(0.0005)


def one(ctx, pf, cfg, body, bclass):
    fx = pf.fx
    mark0 = fx.log.mark()
    obs = dm.drive(fx, body)
    invs = obs.invocations
    if fx.pool is not None:
        parsed = oracle.parse_body(body)
        want = 0
        if parsed[0] == "ok":
            want = len(oracle.expected_invocations(oracle.ref_dispatch(parsed[1], fx.reg, fx.version)))
        drain(fx, mark0, want)
        invs = fx.log.since(mark0)
    status, findings, ref = dm.judge(fx, body, obs, invs)
    has_notif = False
    if ref is not None:
        pf.expected_total.extend(oracle.expected_invocations(ref))
        entries = [ref[1]] if ref[0] == "single" else ref[1]
        has_notif = any(e.notification for e in entries)
        for e in entries:
            ctx.count("entry:" + e.cls)
    ctx.case((repr(cfg), body), nontrivial=has_notif and status == "judged")
    ctx.cell("v%s" % cfg[0], cfg[1], "pool%s" % (cfg[2],), bclass)
    if status != "judged":
        return
    ctx.count("judged:bodies")
    if has_notif:
        ctx.count("judged:notification-bodies" + (":pooled" if fx.pool else ":inline"))
    case = {"config": [cfg[0], cfg[1], list(cfg[2]) if cfg[2] else None], "body": body, "bclass": bclass}
    for aspect, suffix, detail in findings:
        if aspect == "answered-notification":
            ctx.violate("answered-notification:%s:%s" % (suffix, cfg[1]), case, detail)
        elif aspect == "invocations" and "notification" in suffix:
            ctx.violate("invocations:%s:%s:%s" % (suffix, cfg[1], "pooled" if fx.pool else "inline"), case, detail)


def tuple_twins(ctx, rng, pf, cfg):
    """A notification whose positional arguments reach the dispatcher as a tuple ('builtins.tuple' descriptor as
    "params"; the request validation accepts lists and tuples alike) runs exactly like its list twin: once, unanswered."""
    fx = pf.fx
    for shape in SHAPES:
        for m, args in (("echo", [1, "a"]), ("const0", []), ("pub", [None]), ("fail", []), ("two", [1, 2])):
            e = notification(rng, "returns", shape, cfg[1])
            e["method"] = m
            runs = {}
            for form in ("list", "tuple"):
                body = json.dumps(dict(e, params=args if form == "list" else {"__jsonclass__": ["builtins.tuple", [args]]}))
                mark0 = fx.log.mark()
                obs = dm.drive(fx, body)
                if fx.pool is not None:
                    drain(fx, mark0, 1)
                raw = fx.log.since(mark0)
                runs[form] = (obs.raised, obs.output, dm.inv_repr(raw), body)
                if form == "list":
                    # what the list twin ran is what each of the two must run
                    pf.expected_total.extend(list(raw) * 2)
            case = {"config": [cfg[0], cfg[1], list(cfg[2]) if cfg[2] else None], "body": runs["tuple"][3],
                    "bclass": "tuple-twin"}
            ctx.case((repr(cfg), runs["tuple"][3]), nontrivial=True)
            ctx.count("judged:tuple-params-notification-twins")
            if runs["tuple"][0] is not None:
                ctx.violate("tuple-twin:raised-%s" % type(runs["tuple"][0]).__name__, case, {"raised": runs["tuple"][0]})
            elif runs["tuple"][1] not in ("", None):
                ctx.violate("answered-notification:params-given-as-a-tuple:%s" % cfg[1], case, {"output": runs["tuple"][1]})
            elif runs["tuple"][2] != runs["list"][2]:
                ctx.violate("invocations:notification-with-params-given-as-a-tuple-ran-%d-time(s):%s:%s"
                            % (len(runs["tuple"][2]), cfg[1], "pooled" if fx.pool else "inline"), case,
                            {"with_tuple": runs["tuple"][2], "with_list": runs["list"][2]})


def restart_scenario(ctx, rng, serial):
    """The notification pool is stopped while notifications are executing and started again (a server being reconfigured):
    a notification that then arrives alone is executed once, like any other."""
    import threading
    import jsonrpclib.threadpool as tp
    for (mx, mn) in ((1, 0), (2, 0), (3, 0), (2, 1)):
        for nbusy in sorted(set((1, min(2, mx)))):
            serial += 1
            pool = tp.ThreadPool(mx, mn, timeout=0.01, logname="vfpoolR%d" % serial)
            pool.start()
            gate = threading.Event()
            entered = [0]

            def hold(tok):
                entered[0] += 1
                gate.wait(30)
                return tok
            fx = dm.Fixture(dm.std_reg("default"), version=rng.choice([2.0, 1.0]), pool=pool, extra={"hold": hold})
            case = {"config": [fx.version, "default", [mx, mn]], "bclass": "pool-restart", "busy_at_stop": nbusy}
            try:
                for i in range(nbusy):
                    fx.dispatch(json.dumps({"jsonrpc": "2.0", "method": "hold", "params": [i]}))
                t0 = time.monotonic()
                while entered[0] < nbusy and time.monotonic() - t0 < 20:
                    time.sleep(0.002)
                stopper = threading.Thread(target=pool.stop, name="vf-stopper")
                stopper.daemon = True
                stopper.start()
                time.sleep(0.03)
                gate.set()
                stopper.join(60)
                if entered[0] < nbusy or stopper.is_alive():
                    ctx.unsure("pool-restart scenario not established (stop() of the notification pool is C11's concern)")
                    continue
                pool.start()
                for n in range(2):
                    tok = "after-restart-%d" % n
                    mark = fx.log.mark()
                    obs = dm.drive(fx, json.dumps({"jsonrpc": "2.0", "method": "echo", "params": [tok]}))
                    drain(fx, mark, 1)
                    ran = fx.log.since(mark)
                    ctx.case(("pool-restart", mx, mn, nbusy, n, fx.version), nontrivial=True)
                    ctx.count("judged:notification-after-pool-restart")
                    if obs.raised is not None or obs.output not in ("", None):
                        ctx.violate("answered-notification:after-pool-restart", dict(case, nth=n),
                                    {"raised": obs.raised, "output": obs.output})
                    elif len(ran) != 1:
                        ctx.violate("invocations:notification-after-pool-restart-ran-%d-time(s):pooled" % len(ran),
                                    dict(case, nth=n), {"ran": dm.inv_repr(ran)})
                        break
            finally:
                gate.set()
                st = threading.Thread(target=pool.stop, name="vf-stopper")
                st.daemon = True
                st.start()
                st.join(10)
    return serial


def client_side(ctx, rng):
    import jsonrpclib
    for v in (2.0, 1.0):
        for mode in MODES:
            fx = dm.Fixture(dm.std_reg(mode), version=2.0)
            tr = LoopbackTransport(fx)
            proxy = jsonrpclib.ServerProxy("http://loop/", transport=tr, version=v)
            calls = [("echo", (1, 2), {}), ("kw", (), {"a": 1}), ("fail", (), {}), ("nosuch", (5,), {}),
                     ("two", (1,), {}), ("const0", (), {})]
            for name, a, k in calls:
                mark = fx.log.mark()
                try:
                    r = getattr(proxy._notify, name)(*a, **k)
                    out = ("return", r)
                except BaseException as ex:  # noqa
                    out = ("raise", ex)
                ran = fx.log.since(mark)
                ctx.case(("client-notify", v, mode, name))
                ctx.count("judged:client-notify")
                case = {"site": "client-notify", "version": v, "mode": mode, "method": name}
                if out != ("return", None):
                    ctx.violate("client-notify-did-not-return-None:%s" % name, case, {"outcome": out})
                want = 1 if name in ("echo", "kw", "fail", "const0") else 0
                if len(ran) != want:
                    ctx.violate("client-notify-executions-%d-instead-of-%d" % (len(ran), want), case, {})
                if tr.exchanges[-1][1] != "":
                    ctx.violate("client-notify-was-answered", case, {"reply": tr.exchanges[-1][1]})
            # MultiCall with notifications at every position
            for pos in range(3):
                mc = jsonrpclib.MultiCall(proxy)
                expected = []
                for i in range(3):
                    if i == pos:
                        mc._notify.echo("n", i)
                    else:
                        mc.echo("c", i)
                        expected.append(["c", i])
                mark = fx.log.mark()
                res = mc()
                got = [r["bound"]["args"] for r in res]
                ctx.case(("client-multicall-notify", v, mode, pos))
                ctx.count("judged:client-multicall-notify")
                if got != expected or len(fx.log.since(mark)) != 3:
                    ctx.violate("multicall-notification-mishandled", {"site": "multicall", "pos": pos, "mode": mode},
                                {"results": got, "expected": expected, "ran": len(fx.log.since(mark))})


def run(ctx):
    rng = ctx.rng
    inj, ok = poolcheck.setup()
    cfgs = [(v, mode, pool) for v in (2.0, 1.0) for mode in MODES for pool in POOLS]
    serial = ctx.shard * 100000
    n = 0
    for ci, cfg in enumerate(cfgs):
        if not ctx.mine(ci):
            continue
        serial += 1
        pf = PooledFixture(cfg, serial)
        inj.configure("yield" if cfg[2] else "none", seed=rng.randrange(1 << 30), p=rng.choice([0.05, 0.2, 0.5]))
        # alone: shape x outcome
        for shape in SHAPES:
            for outcome in OUTCOMES:
                for rep in range(ctx.pick(1, 4)):
                    e = notification(rng, outcome, shape, cfg[1])
                    one(ctx, pf, cfg, json.dumps(e), "alone")
        # every batch position
        for rep in range(ctx.pick(80, 2500)):
            size = rng.randint(1, 6)
            batch = []
            for i in range(size):
                if rng.random() < 0.5:
                    batch.append(notification(rng, rng.choice(list(OUTCOMES)), rng.choice(SHAPES), cfg[1]))
                else:
                    batch.append(reqgen.entry_of(rng.choice(["call", "invalid", "failing", "unknown", "nonobject"]), rng))
            body = json.dumps(batch)
            one(ctx, pf, cfg, body, "batch")
            if rep == 0 and ci == ctx.shard:
                ctx.sample({"config": repr(cfg), "body": body})
        for pos in range(4):
            for outcome in OUTCOMES:
                batch = [reqgen.entry_of("call", rng) for _ in range(3)]
                batch.insert(pos, notification(rng, outcome, rng.choice(SHAPES), cfg[1]))
                one(ctx, pf, cfg, json.dumps(batch), "position")
        if cfg[1] == "default":
            tuple_twins(ctx, rng, pf, cfg)
        pf.close(ctx, cfg)
    # stall sweep over the pool's enqueue / worker loop while notifications flow
    # points = the pool-module lines the worker threads and the dispatching thread were seen executing above
    pts = [{"qualname": q, "line": l, "role": r, "k": k} for (q, l, r) in sorted(inj.seen) for k in (1, 2, 3)]
    if not pts:
        pts = [dict(pt, role="main") if pt["role"] in ("controller", "enqueuer") else pt
               for pt in poolcheck.stall_points()]
    mine = [pt for i, pt in enumerate(pts) if ctx.mine(i)]
    rng.shuffle(mine)
    for pt in mine[:ctx.pick(25, 10 ** 6)]:
        cfg = (rng.choice([2.0, 1.0]), rng.choice(MODES), rng.choice(POOLS[1:]))
        serial += 1
        pf = PooledFixture(cfg, serial)
        inj.configure("stall", seed=rng.randrange(1 << 30),
                      plan=dict(pt, budget=rng.choice([20, 100]) if rng.random() < 0.5 else 10 ** 9, cap=0.02))
        hits0 = inj.hits
        gaps = pt["role"] == "worker" and rng.random() < 0.6
        for rep in range(6 if gaps else 4):
            if gaps:
                # lone notifications separated by idle periods of about the pool's idle timeout (0.01 s): each one
                # arrives while the last idle worker may be on its way out
                batch = [notification(rng, "returns", rng.choice(SHAPES), cfg[1])]
                time.sleep(max(0.001, 0.01 + rng.choice([-0.003, -0.001, 0.0, 0.001, 0.002, 0.004, 0.008])))
                ctx.count("notifications-sent-around-the-idle-timeout")
            else:
                batch = [notification(rng, rng.choice(["returns", "raises", "returns"]), rng.choice(SHAPES), cfg[1])
                         for _ in range(rng.randint(1, 4))]
            one(ctx, pf, cfg, json.dumps(batch if len(batch) > 1 else batch[0]), "stall")
        pf.close(ctx, cfg)
        if inj.hits > hits0:
            ctx.count("stall-points-hit")
    inj.configure("none")
    ctx.counters["monitored-lines-executed"] = inj.snapshot()["lines"]
    inj.uninstall()
    if ctx.shard == 0:
        client_side(ctx, rng)
    if ctx.shard == 1 % ctx.nshards:
        for rep in range(ctx.pick(2, 25)):
            serial = restart_scenario(ctx, rng, serial)


def finalize(m, tier):
    c = m["counters"]
    out = []
    for k, lo in (("judged:notification-bodies:inline", 300), ("judged:notification-bodies:pooled", 1000),
                  ("monitor:final-accounting", 40), ("judged:client-notify", 30), ("stall-points-hit", 20),
                  ("entry:notification:ok", 500), ("entry:notification:raises", 200),
                  ("entry:notification:unknown-method", 50), ("entry:notification:bad-arguments", 50)):
        if c.get(k, 0) < lo:
            out.append("monitor counter %s too low (%d < %d)" % (k, c.get(k, 0), lo))
    return out


def replay(ctx, case):
    if case.get("site"):
        client_side(ctx, ctx.rng)
        return
    if case.get("bclass") == "final-accounting":
        ctx.unsure("final accounting covers a whole fixture: re-run the check with the recorded seed")
        return
    cfg = (case["config"][0], case["config"][1], tuple(case["config"][2]) if case["config"][2] else None)
    inj, ok = poolcheck.setup()
    for i in range(30 if cfg[2] else 1):
        pf = PooledFixture(cfg, 900000 + i)
        inj.configure("yield" if cfg[2] else "none", seed=i, p=0.2)
        one(ctx, pf, cfg, case["body"], case.get("bclass", "replay"))
        pf.close(ctx, cfg)
    inj.uninstall()
