"""
C08 - Class translation is inert when disabled and validates names before importing.
"""

import copy
import itertools
import json

from vf import gen, guards, oracle, reqgen
from vf import dispatchmon as dm
from vf.peers import CannedTransport

LEVEL = "exploration"
SHARDS = {"quick": 8, "thorough": 16}
TIMEOUT = {"quick": 240, "thorough": 1800}
ALPHABET = ["a", "Z", "0", "_", ".", "-", " ", "/", "\\", ":", ";", ",", "'", '"', "(", ")", "$", "%", "+", "*", "é",
            "ß", "０", "\n", "\t", "\x00", " "]
RULE = ("payloads = '__jsonclass__' members at depth 0-3 of requests and of responses, with descriptors naming existing "
        "(side-effect-free), missing and canary modules, malformed descriptors of every JSON type and length 0-3, and "
        "class names: ALL names of length <= 3 over a 27-symbol alphabet (a Z 0 _ . - space / \\ : ; , ' \" ( ) $ % + * "
        "e-acute sharp-s fullwidth-zero newline tab NUL U+2028 = 20 439 names, enumerated; thorough: complete, quick: "
        "seed-shifted fifth), canary names with each of 60 bad characters inserted at each position, random Unicode "
        "names; use_jsonclass on and off; server side (dispatcher, probes) and client side (loads, ServerProxy over a "
        "canned transport). Monitors: shim over builtins.__import__, audit hook (import/open/exec/compile/os.system/"
        "subprocess/socket), canary modules whose import and construction leave a trace, sys.modules delta. distinct = "
        "distinct (switch, side, payload); non-trivial = the payload holds a '__jsonclass__' member and the import/"
        "construction monitors were armed around its decoding.")
ASSUMPTIONS = [
    "'well-formed descriptor' = a list [name, args] with a string name and list/dict args",
    "valid names (only ASCII letters, digits, underscore, dot) may be looked up (import attempts are legitimate for them)",
]
TECHNIQUE = "import shim + audit hook + canary modules armed around every decode; enumerated short class names (runtime monitoring)"
LEVEL_TEXT = ("Every generated payload is decoded by the real loads / jsonclass.load / dispatcher / ServerProxy with the "
              "import and construction monitors armed on the decoding thread; with translation off the result must "
              "equal json.loads and nothing may be imported or constructed; with it on, every name that is empty or "
              "holds a character outside [A-Za-z0-9_.] must be rejected before any import attempt (the shim also sees "
              "failing and cached attempts), and rejected payloads must be answered -32700 without running a probe.")
LEVEL_NOTE = "Trusted: guards.ImportGuard/Canaries; stdlib json as the reference decoder; the name alphabet is representative, not the whole of Unicode."

BAD_CHARS = ["-", " ", "/", "\\", ":", ";", ",", "'", '"', "(", ")", "$", "%", "+", "*", "é", "ß", "０", "\n", "\t",
             "\x00", " ", "!", "#", "&", "<", ">", "=", "?", "@", "[", "]", "^", "`", "{", "}", "|", "~", "\r",
             "\x7f", "\x85", "\xa0", "·", "٠", "１", "Ａ", "ａ", "＿", "．", "。", "​", "﻿", "\U0001F600",
             "ı", "K", "ﬁ", "²", "½", "़", "‿"]


def name_is_valid(name):
    return isinstance(name, str) and name != "" and all(
        c in "abcdefghijklmnopqrstuvwxyzABCDEFGHIJKLMNOPQRSTUVWXYZ0123456789_." for c in name)


def embed(payload, depth, rng):
    x = payload
    for _ in range(depth):
        r = rng.random()
        if r < 0.5:
            x = [1, x]
        else:
            x = {"k": x, "o": None}
    return x


class Mon(object):
    def __init__(self, ctx):
        self.ctx = ctx
        self.guard = guards.ImportGuard()
        self.guard.install()
        self.canaries = guards.Canaries()

    def close(self):
        self.guard.uninstall()
        self.canaries.close()

    def run(self, fn):
        """Runs fn() with the monitors armed. Returns (outcome, imports_from_translator, audit, new_modules, canary)."""
        self.canaries.reset()
        self.guard.arm()
        try:
            out = ("ok", fn())
        except BaseException as ex:  # noqa
            out = ("raise", ex)
        imports, audit, new_modules = self.guard.disarm()
        cimp, ccon = self.canaries.trace()
        self.ctx.count("monitor:armed-decodes")
        return out, imports, audit, new_modules, (cimp, ccon)


def side_effects(imports, audit, new_modules, canary):
    """Anything that shows an import attempt or a construction."""
    trans = [i for i in imports if i[1].startswith("jsonrpclib")]
    eff = []
    if trans:
        eff.append(("import-attempt", trans[:3]))
    if canary[0]:
        eff.append(("canary-imported", canary[0][:3]))
    if canary[1]:
        eff.append(("canary-constructed", canary[1][:3]))
    if new_modules:
        eff.append(("new-modules", new_modules[:3]))
    bad_audit = [a for a in audit if a[0] != "import"] + [a for a in audit if a[0] == "import"]
    if bad_audit:
        eff.append(("audit-events", bad_audit[:3]))
    return eff


_HTTP = {}


def _http_client(fx):
    """One real SimpleJSONRPCServer per fixture, started on first use (stopped at the end of run())."""
    from vf import servers
    if id(fx) not in _HTTP:
        srv = servers.Srv("simple", "tcp", fx)
        srv.start()
        _HTTP[id(fx)] = (srv, servers.RawClient(srv))
    return _HTTP[id(fx)][1]


def _http_stop():
    for srv, _ in _HTTP.values():
        try:
            srv.stop()
        except Exception:  # noqa
            pass
    _HTTP.clear()


# ---------------------------------------------------------------------------
# (A) translation off: inert

def check_off(ctx, mon, value, side, fx_off, proxy_off, transport):
    """value: a JSON value containing __jsonclass__ members."""
    import jsonrpclib
    text = json.dumps(value)
    plain = json.loads(text)
    case = {"switch": "off", "side": side, "payload": text[:1500]}
    ctx.case(("off", side, text), nontrivial="__jsonclass__" in text)
    ctx.cell("off", side)
    if side == "loads":
        out, imports, audit, newm, canary = mon.run(lambda: jsonrpclib.loads(text, fx_off.config))
        decoded = out[1] if out[0] == "ok" else None
    elif side in ("server", "http"):
        body = json.dumps({"jsonrpc": "2.0", "id": 1, "method": "echo", "params": [value]})
        mark = fx_off.log.mark()
        if side == "http":
            # the same request through a real HTTP server (request handler, do_POST) built on the same configuration
            def post():
                status, headers, payload = _http_client(fx_off).post(body)
                return payload.decode("utf-8")
            out, imports, audit, newm, canary = mon.run(post)
        else:
            out, imports, audit, newm, canary = mon.run(lambda: fx_off.dispatch(body))
        ran = fx_off.log.since(mark)
        decoded = ran[0][1]["args"][0] if len(ran) == 1 else None
        if out[0] == "ok" and len(ran) != 1:
            ctx.violate("off:server-did-not-deliver-verbatim", case, {"output": out[1][:300]})
            return
        if out[0] == "ok":
            # the echoed result carries the payload back verbatim too
            reply = json.loads(out[1])
            back = reply.get("result", {}).get("bound", {}).get("args", [None])[0] if isinstance(reply.get("result"), dict) else None
            if not gen.teq(back, plain):
                ctx.violate("off:server-reply-altered-jsonclass-member", case, {"reply": out[1][:400]})
    else:
        transport.reply_text = json.dumps({"jsonrpc": "2.0", "id": 1, "result": value})
        out, imports, audit, newm, canary = mon.run(lambda: proxy_off.anything(1))
        decoded = out[1] if out[0] == "ok" else None
    ctx.count("judged:off-inert")
    if out[0] == "raise":
        ctx.violate("off:decoding-raised-%s" % type(out[1]).__name__, case, {"raised": out[1]})
        return
    if not gen.teq(decoded, plain):
        ctx.violate("off:decoded-differs-from-plain-json", case, {"decoded": gen.trepr(decoded)[:400]})
    eff = side_effects(imports, audit, newm, canary)
    if side == "http":
        # the harness's own client (sockets, lazily imported HTTP machinery) runs on the monitored thread: only what
        # the translator would do is judged here - imports issued by the class translator, canaries imported / built
        eff = [e for e in eff if e[0] in ("canary-imported", "canary-constructed")
               or (e[0] == "import-attempt" and any(i[1] == "jsonrpclib.jsonclass" for i in e[1]))]
    if eff:
        ctx.violate("off:%s" % eff[0][0], case, {"effects": eff})


# ---------------------------------------------------------------------------
# (B) translation on: names validated before import

def check_name(ctx, mon, name, args, depth, rng, classes, label):
    import jsonrpclib.jsonclass as jc
    desc = {"__jsonclass__": [name, args]}
    value = embed(desc, depth, rng)
    valid = name_is_valid(name)
    case = {"switch": "on", "side": "load", "name": name, "args": args, "depth": depth, "classes": bool(classes),
            "label": label}
    ctx.case(("on", name if isinstance(name, str) else repr(name), repr(args), depth, bool(classes)), nontrivial=True)
    ctx.cell("on", label)
    snapshot = copy.deepcopy(value)
    out, imports, audit, newm, canary = mon.run(lambda: jc.load(value, classes))
    if valid:
        ctx.count("unjudged:valid-name")
        return
    ctx.count("judged:invalid-name")
    wellformed = isinstance(name, str) and isinstance(args, (list, dict))
    kind = "empty" if name == "" else "non-string" if not isinstance(name, str) else "bad-char"
    if out[0] == "ok":
        ctx.violate("on:invalid-name-accepted:" + kind, case, {"loaded": repr(out[1])[:200]})
    elif wellformed and not isinstance(out[1], jc.TranslationError):
        ctx.violate("on:invalid-name-raised-%s-not-TranslationError:%s" % (type(out[1]).__name__, kind), case,
                    {"raised": out[1]})
    eff = [e for e in side_effects(imports, audit, newm, canary) if e[0] != "audit-events"
           or any(a[0] != "import" for a in e[1])]
    if eff:
        ctx.violate("on:%s-before-rejection:%s" % (eff[0][0], kind), case, {"effects": eff})
    if not gen.teq(value, snapshot):
        ctx.count("info:payload-modified")


def canary_names():
    base = "vfcanarymod.Boom"
    for c in BAD_CHARS:
        for pos in range(len(base) + 1):
            yield base[:pos] + c + base[pos:], "canary+bad-char"
    for extra in ("vfcanarymod.factory;", "vfcanarymod.Boom()", "vfcanarymod:Boom", "vfcanarymod/Boom",
                  "vfcanarymod .Boom", "vfcanarymod.Boom\n", "\nvfcanarymod.Boom", "vfcanarymod.Boom\x00",
                  "vfcanarymod..Boom;", "os.system('x')", "__import__('os')", "vfcanarymod.Boom#", "vfcanarymod.Boom "):
        yield extra, "canary+injection"


# ---------------------------------------------------------------------------
# (C) rejected payloads: -32700, nothing runs; client side raises without side effects

def translator_rejects(value, classes):
    import jsonrpclib.jsonclass as jc
    try:
        jc.load(copy.deepcopy(value), classes)
    except Exception:
        return True
    return False


def check_server(ctx, mon, fx_on, body_value, label):
    body = json.dumps(body_value)
    rejects = translator_rejects(body_value, fx_on.config.classes)
    mark = fx_on.log.mark()
    out, imports, audit, newm, canary = mon.run(lambda: fx_on.dispatch(body))
    ran = fx_on.log.since(mark)
    case = {"switch": "on", "side": "server", "body": body[:1500], "label": label}
    ctx.case(("on-server", body), nontrivial=True)
    ctx.cell("on", "server")
    if not rejects:
        ctx.count("unjudged:translator-accepts")
        return
    ctx.count("judged:server-rejection")
    if out[0] == "raise":
        ctx.violate("on:server-raised-%s" % type(out[1]).__name__, case, {"raised": out[1]})
        return
    try:
        reply = json.loads(out[1])
    except ValueError:
        reply = None
    code = reply.get("error", {}).get("code") if isinstance(reply, dict) and isinstance(reply.get("error"), dict) else None
    if code != -32700:
        ctx.violate("on:server-rejected-payload-answered-%s" % code, case, {"output": out[1][:400]})
    if ran:
        ctx.violate("on:server-rejected-payload-ran-a-method", case, {"ran": dm.inv_repr(ran)})
    if canary[1]:
        ctx.count("info:canary-constructed-by-valid-descriptor")


def check_client(ctx, mon, proxy_on, transport, result_value, label):
    rejects = translator_rejects(result_value, None)
    transport.reply_text = json.dumps({"jsonrpc": "2.0", "id": 1, "result": result_value})
    out, imports, audit, newm, canary = mon.run(lambda: proxy_on.anything(1))
    case = {"switch": "on", "side": "client", "reply": transport.reply_text[:1500], "label": label}
    ctx.case(("on-client", transport.reply_text), nontrivial=True)
    ctx.cell("on", "client")
    if not rejects:
        ctx.count("unjudged:translator-accepts")
        return
    ctx.count("judged:client-rejection")
    if out[0] == "ok":
        ctx.violate("on:client-returned-a-value-for-rejected-payload", case, {"returned": repr(out[1])[:200]})


ESCAPED_KEYS = ['"\\u005f_jsonclass__"', '"__\\u006asonclass__"', '"__jsonclass_\\u005f"', '"\\u005f\\u005fjsonclass__"',
                '"__jsonclas\\u0073__"']


def respell(text, rng):
    """The same JSON value, with the '__jsonclass__' member names written with \\u escapes."""
    return text.replace('"__jsonclass__"', rng.choice(ESCAPED_KEYS))


def check_spelling(ctx, mon, value, fx_on, fx_off, rng):
    """Metamorphic: how a member name is spelled in the JSON text cannot matter, with the switch on or off."""
    import jsonrpclib
    literal = json.dumps({"jsonrpc": "2.0", "id": 1, "method": "echo", "params": [value]})
    escaped = respell(literal, rng)
    if escaped == literal or json.loads(escaped) != json.loads(literal):
        return
    for label, fx in (("on", fx_on), ("off", fx_off)):
        outs = []
        for text in (literal, escaped):
            mark = fx.log.mark()
            out, imports, audit, newm, canary = mon.run(lambda: fx.dispatch(text))
            ran = len(fx.log.since(mark))
            if out[0] == "ok":
                # the error message quotes the request text: compare what the reply says, not how it is worded
                try:
                    rep = json.loads(out[1]) if out[1] else None
                except ValueError:
                    rep = "<not json>"
                if isinstance(rep, dict) and isinstance(rep.get("error"), dict):
                    summary = ("error", rep["error"].get("code"))
                elif isinstance(rep, dict):
                    summary = ("result", gen.trepr(rep.get("result")))
                else:
                    summary = ("other", repr(rep)[:100])
            else:
                summary = ("raised", type(out[1]).__name__)
            outs.append((summary, ran, bool(canary[0]), bool(canary[1])))
        ctx.case(("spelling", label, escaped))
        ctx.count("judged:key-spelling")
        ctx.cell(label, "escaped-key")
        if outs[0] != outs[1]:
            ctx.violate("%s:escaped-member-name-treated-differently" % label,
                        {"switch": label, "side": "server", "body": escaped},
                        {"literal": [str(x)[:300] for x in outs[0]], "escaped": [str(x)[:300] for x in outs[1]]})
        for text in (literal, escaped):
            try:
                a = ("ok", jsonrpclib.loads(text, fx.config))
            except Exception as ex:
                a = ("raise", type(ex).__name__)
            outs.append(a[0] if a[0] == "raise" else "ok")
        if outs[2] != outs[3]:
            ctx.violate("%s:loads-escaped-member-name-treated-differently" % label,
                        {"switch": label, "side": "loads", "body": escaped}, {"literal": outs[2], "escaped": outs[3]})


def run(ctx):
    import jsonrpclib
    import jsonrpclib.config
    rng = ctx.rng
    mon = Mon(ctx)
    cfg_off = jsonrpclib.config.Config(use_jsonclass=False)
    cfg_off.classes.add(dict, "K")
    fx_off = dm.Fixture(dm.std_reg("default", use_jsonclass=False), version=2.0, config=cfg_off)
    fx_on = dm.Fixture(dm.std_reg("default"), version=2.0)
    t_off, t_on = CannedTransport(), CannedTransport()
    # client proxies of every (explicit version, config version) pairing: the switch must hold for all of them
    proxies_off = []
    for cv in (2.0, 1.0):
        c = jsonrpclib.config.Config(version=cv, use_jsonclass=False)
        c.classes.add(dict, "K")
        for pv in (None, 1.0, 2.0):
            proxies_off.append(jsonrpclib.ServerProxy("http://canned/", transport=t_off, config=c, version=pv))
    proxy_off = jsonrpclib.ServerProxy("http://canned/", transport=t_off, config=cfg_off)
    proxy_on = jsonrpclib.ServerProxy("http://canned/", transport=t_on)
    # warm-up: lazy imports of the stack itself must not be attributed to payloads
    fx_off.dispatch('{"jsonrpc":"2.0","id":1,"method":"echo","params":[{"__jsonclass__":["x.Y",[]]}]}')
    fx_on.dispatch('{"jsonrpc":"2.0","id":1,"method":"echo","params":[{"__jsonclass__":["x-.Y",[]]}]}')
    t_off.reply_text = '{"jsonrpc":"2.0","id":1,"result":1}'
    proxy_off.anything()

    descriptors = list(reqgen.JSONCLASS_DESCRIPTORS) + [
        ["vfcanarymod.Boom", []], ["vfcanarymod.Boom", {"a": 1}], ["vfcanarymod.factory", [1, 2]],
        ["vfcanarypkg.Boom", []], ["os.system", ["true"]], ["subprocess.Popen", [["true"]]], ["builtins.eval", ["1"]],
        ["K", []], ["collections.OrderedDict", []]]
    # (A) off: every descriptor at depth 0-3, three sides
    n = 0
    for desc in descriptors:
        for extra in ({}, {"attr": 1}):
            for depth in (0, 1, 2, 3):
                for side in ("loads", "server", "client", "http"):
                    n += 1
                    if not ctx.mine(n):
                        continue
                    payload = embed(dict(extra, __jsonclass__=copy.deepcopy(desc)), depth, rng)
                    check_off(ctx, mon, payload, side, fx_off,
                              proxies_off[n % len(proxies_off)] if side == "client" else proxy_off, t_off)
    for i in range(ctx.pick(1200, 40000)):
        v = gen.json_value(rng, 3, 3)
        d = {"__jsonclass__": rng.choice(descriptors + [gen.json_value(rng, 2, 3)])}
        payload = embed(d, rng.randint(0, 3), rng)
        if isinstance(v, dict):
            v["x"] = payload
            payload = v
        check_off(ctx, mon, payload, rng.choice(("loads", "server", "client", "http") if i % 8 == 0 else
                                                 ("loads", "server", "client")), fx_off, rng.choice(proxies_off), t_off)
    ctx.sample({"switch": "off", "payload": {"k": [1, {"__jsonclass__": ["vfcanarymod.Boom", []], "attr": 1}]}})

    # (B) on: exhaustive short names
    idx = 0
    stride = ctx.pick(5, 1)
    for length in (0, 1, 2, 3):
        for combo in itertools.product(ALPHABET, repeat=length):
            idx += 1
            if not ctx.mine(idx):
                continue
            if stride > 1 and (idx // ctx.nshards + ctx.seed) % stride:
                continue
            name = "".join(combo)
            check_name(ctx, mon, name, [] if idx % 3 else {}, idx % 3, rng, None if idx % 2 else {"K": dict},
                       "short-name")
    ctx.exhaustive["class names of length <= 3 over the 27-symbol alphabet (thorough only)"] = stride == 1
    n = 0
    for name, label in canary_names():
        for args in ([], {}, [1], 5):
            n += 1
            if ctx.mine(n):
                check_name(ctx, mon, name, args, n % 4, rng, None if n % 2 else {"K": dict}, label)
    for name in (None, 0, 5, True, False, 1.5, [], ["a"], {}, {"a": 1}, [["vfcanarymod.Boom"]], ""):
        for args in ([], {}, 5, None):
            n += 1
            if ctx.mine(n):
                check_name(ctx, mon, name, args, n % 3, rng, None, "non-string-name")
    for i in range(ctx.pick(2000, 200000)):
        r = rng.random()
        if r < 0.5:
            name = gen.rand_str(rng, 12)
        elif r < 0.8:
            base = rng.choice(["vfcanarymod.Boom", "decimal.Decimal", "a.b", "K"])
            pos = rng.randint(0, len(base))
            name = base[:pos] + chr(rng.choice([rng.randint(0, 0x2ff), rng.randint(0x300, 0xffff) if True else 0,
                                                rng.randint(0x10000, 0x10ffff)])) + base[pos:]
            if "\ud800" <= name[pos:pos + 1] <= "\udfff":
                name = base
        else:
            name = "".join(rng.choice(ALPHABET) for _ in range(rng.randint(4, 8)))
        check_name(ctx, mon, name, rng.choice([[], {}, [1]]), rng.randint(0, 3), rng,
                   rng.choice([None, {"K": dict}]), "random-name")
    ctx.sample({"switch": "on", "name": "vfcanarymod.Bo;om", "args": [], "expected": "TranslationError before any import"})

    # (A') / (B') the spelling of the member name in the JSON text is irrelevant
    n = 0
    spell_descs = [d for d in descriptors if not (isinstance(d, list) and d and isinstance(d[0], str)
                                                  and d[0].split(".")[0] in ("os", "subprocess", "builtins"))]
    for desc in spell_descs + [["vfcanary-mod.Boom", []], ["", []], ["é.K", []]]:
        for depth in (0, 1, 2):
            n += 1
            if ctx.mine(n):
                check_spelling(ctx, mon, embed({"__jsonclass__": copy.deepcopy(desc), "attr": 1}, depth, rng),
                               fx_on, fx_off, rng)
    # (C) server / client handling of rejected payloads
    n = 0
    for desc in spell_descs + [["vfcanary-mod.Boom", []], ["vfcanarymod.Boom;", []], ["", []], ["é.K", []]]:
        for depth in (0, 1, 2):
            n += 1
            if not ctx.mine(n):
                continue
            obj = embed({"__jsonclass__": copy.deepcopy(desc)}, depth, rng)
            for body in ({"jsonrpc": "2.0", "id": 1, "method": "echo", "params": [obj]},
                         {"jsonrpc": "2.0", "id": 1, "method": "kw", "params": {"v": obj}},
                         {"jsonrpc": "2.0", "method": "echo", "params": [obj]},
                         [{"jsonrpc": "2.0", "id": 1, "method": "echo"}, {"jsonrpc": "2.0", "id": 2, "method": "echo",
                                                                          "params": [obj]}],
                         {"jsonrpc": "2.0", "id": obj, "method": "echo"},
                         dict(copy.deepcopy(obj) if isinstance(obj, dict) else {}, jsonrpc="2.0", id=1, method="echo")):
                check_server(ctx, mon, fx_on, body, "descriptor")
            check_client(ctx, mon, proxy_on, t_on, obj, "descriptor")
            check_client(ctx, mon, proxy_on, t_on, {"wrapped": [obj]}, "descriptor")
    _http_stop()
    mon.close()


def finalize(m, tier):
    c = m["counters"]
    out = []
    for k, lo in (("monitor:armed-decodes", 3000), ("judged:off-inert", 500), ("judged:invalid-name", 2000),
                  ("judged:server-rejection", 100), ("judged:client-rejection", 30), ("judged:key-spelling", 50)):
        if c.get(k, 0) < lo:
            out.append("monitor counter %s too low (%d < %d)" % (k, c.get(k, 0), lo))
    for cell in ("off/loads", "off/server", "off/client", "on/short-name", "on/canary+bad-char", "on/server", "on/client"):
        if cell not in m["cells"]:
            out.append("cell %s never exercised" % cell)
    return out


def replay(ctx, case):
    import jsonrpclib
    import jsonrpclib.config
    mon = Mon(ctx)
    try:
        if case.get("side") == "load":
            check_name(ctx, mon, case["name"], case["args"], case["depth"], ctx.rng,
                       {"K": dict} if case.get("classes") else None, case.get("label", "replay"))
        elif case.get("switch") == "off":
            cfg_off = jsonrpclib.config.Config(use_jsonclass=False)
            fx_off = dm.Fixture(dm.std_reg("default", use_jsonclass=False), version=2.0, config=cfg_off)
            t = CannedTransport()
            proxy = jsonrpclib.ServerProxy("http://canned/", transport=t, config=cfg_off)
            check_off(ctx, mon, json.loads(case["payload"]), case["side"], fx_off, proxy, t)
        elif case.get("side") == "server":
            fx_on = dm.Fixture(dm.std_reg("default"), version=2.0)
            check_server(ctx, mon, fx_on, json.loads(case["body"]), "replay")
        else:
            t = CannedTransport()
            proxy = jsonrpclib.ServerProxy("http://canned/", transport=t)
            check_client(ctx, mon, proxy, t, json.loads(case["reply"])["result"], "replay")
    finally:
        mon.close()
