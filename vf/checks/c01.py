"""
C01 - End-to-end call transparency across versions, transports and call styles.
"""

import collections
import json

from vf import gen, oracle, servers
from vf import dispatchmon as dm
from vf.peers import LoopbackTransport
from vf.probes import Spec

LEVEL = "exploration"
SHARDS = {"quick": 10, "thorough": 20}
TIMEOUT = {"quick": 240, "thorough": 1800}
RULE = ("calls = generated method names (identifiers, flat dotted registrations, dotted paths through a registered "
        "instance with nested attributes, arbitrary Unicode names through getattr) x positional or keyword style x "
        "plain call / chained dotted call / MultiCall at every batch position mixed with notifications (MultiCall objects "
        "reused across batches, including notification-only batches; batch sizes 1-25 and 31-33, 99-101, 128, 257), with generated "
        "JSON arguments and an independently planned return value (falsy values over-weighted), in every cell of "
        "version {1.0,2.0} x {bare dispatcher + loopback, Simple x {TCP,Unix}, Pooled x {TCP,Unix}} x class translation "
        "{on,off} (20 cells, all instantiated in every run; in 7 of them the same callables are also served as the methods of "
        "a registered object that routes calls through its own _dispatch). Oracles: probe log shows exactly one invocation with the "
        "sent name and typed-equal arguments; returned value typed-equal to the planned one (tuples->lists); History "
        "equals, in order, the texts recorded at the server boundary. distinct = distinct (cell, style, name, arguments, "
        "planned value); non-trivial = the call reached the probe and all three oracles ran.")
ASSUMPTIONS = [
    "excluded names: dunder names, attributes of ServerProxy/_Method and, for MultiCall, of MultiCall/MultiCallMethod "
    "(method, params, notify, request, _config, _job_list, _server, _request, _notify), which shadow remote names",
    "payloads are free of '__jsonclass__' keys; integers up to 2^53, finite floats, no lone surrogates",
    "fault-free network (loopback / localhost / Unix socket)",
]
TECHNIQUE = "end-to-end probe log + typed value oracle + History-vs-server-boundary recorder across the configuration matrix (runtime monitoring)"
LEVEL_TEXT = ("Real ServerProxy objects call real servers (in-process dispatcher, Simple and Pooled servers on TCP and Unix "
              "sockets) in all 20 configuration cells; probes log every invocation, return values are planned by the "
              "harness independently of the arguments, the server's marshaled entry point is wrapped to record the texts "
              "exchanged, and typed equality judges arguments, results, exactly-once and the attached History.")
LEVEL_NOTE = "Trusted: gen.teq/jn typed equality; probe log; recorder installed as an instance attribute over _marshaled_dispatch."

CELLS = [(v, srv, fam, jc) for v in (1.0, 2.0)
         for srv, fam in (("bare", "loopback"), ("simple", "tcp"), ("simple", "unix"), ("pooled", "tcp"),
                          ("pooled", "unix"))
         for jc in (True, False)]

FLAT_NAMES = ["f", "add", "x1", "CamelCase", "a_b", "é", "ns.f", "a.b.c", "with space", "emoji\U0001F600", "dash-name",
              "1digit", "semi;colon", 'quote"q', "日本語", "rpc.internal", "system.listMethods", "tab\tname",
              "slash/name", "query?x=1", "Ünï.cödé", "x" * 300]
INSTANCE_NAMES = ["pub", "sub.leaf", "sub.deeper.leaf2", "sub.é"]
MC_EXCLUDED = {"method", "params", "notify", "request", "_config", "_job_list", "_server", "_request", "_notify"}


class Cell(object):
    def __init__(self, cell, mode="default"):
        import jsonrpclib
        import jsonrpclib.config
        from jsonrpclib.history import History
        v, srv, fam, jc = cell
        self.cell = cell
        self.planned = collections.deque()
        funcs = {n: Spec(n, "*args, **kwargs", ("planned", self.planned)) for n in FLAT_NAMES}
        tree = {"pub": Spec("pub", "*args, **kwargs", ("planned", self.planned)),
                "sub": {"leaf": Spec("sub.leaf", "*args, **kwargs", ("planned", self.planned)),
                        "é": Spec("sub.é", "*args, **kwargs", ("planned", self.planned)),
                        "deeper": {"leaf2": Spec("sub.deeper.leaf2", "*args, **kwargs", ("planned", self.planned))}}}
        # mode "instance-dispatch": the callables are the methods of ONE registered object which routes the calls through
        # its own _dispatch(method, params) (positional list -> *params, keyword map -> **params)
        reg = oracle.RegModel(funcs, tree, mode)
        self.mode = mode
        self.names = FLAT_NAMES + INSTANCE_NAMES if mode == "default" else list(FLAT_NAMES)
        self.fx = dm.Fixture(reg, version=v, use_jsonclass=jc)
        self.history = History()
        self.boundary = []      # (request text, response text) seen at the server boundary
        self.srv = None
        ccfg = jsonrpclib.config.Config(version=v, use_jsonclass=jc)
        if srv == "bare":
            self.transport = LoopbackTransport(self.fx)
            self.boundary = self.transport.exchanges
            self.proxy = jsonrpclib.ServerProxy("http://loopback/", transport=self.transport, version=v,
                                                config=ccfg, history=self.history)
        else:
            self.srv = servers.Srv(srv, fam, self.fx)
            real = self.srv.server._marshaled_dispatch
            boundary = self.boundary

            def recorder(data, dispatch_method=None, path=None):
                out = real(data, dispatch_method, path)
                boundary.append((data, out))
                return out
            self.srv.server._marshaled_dispatch = recorder
            self.srv.start()
            self.proxy = jsonrpclib.ServerProxy(self.srv.url, version=v, config=ccfg, history=self.history)

    def close(self):
        try:
            self.proxy("close")()
        except Exception:
            pass
        if self.srv is not None:
            self.srv.stop()


WORDS = ["the", "wire", "of", "a", "response", "is", "split", "into", "chunks", "été", "日本", "x", "JSON-RPC", "&",
         "naïve", "\U0001F600", "-", "1024", "bytes", ""]


def prose(rng, n):
    """English-like text with single spaces (bodies larger than the transports' read chunks)."""
    out = []
    size = 0
    while size < n:
        w = rng.choice(WORDS)
        out.append(w)
        size += len(w) + 1
    return " ".join(out)


def big_value(rng):
    r = rng.random()
    n = rng.choice([300, 900, 1024, 1500, 2048, 3000, 6000])
    if r < 0.5:
        return prose(rng, n)
    if r < 0.8:
        return [prose(rng, n // 4) for _ in range(4)]
    return {"text " + str(i): prose(rng, n // 3) for i in range(3)}


def aliased(rng):
    """A value in which one container OBJECT is referenced several times (a DAG, not a cycle)."""
    x = rng.choice([[1, "a"], {"k": [None]}, [], {}, [[0]]])
    shape = rng.random()
    if shape < 0.4:
        return [x, x]
    if shape < 0.7:
        return {"a": x, "b": [x], "c": {"d": x}}
    return [[x], x, {"x": x}]


def gen_args(rng):
    if rng.random() < 0.08:
        x = rng.choice([[1, 2], {"k": "v"}, []])
        r = rng.random()
        if r < 0.4:
            return [x, x], {}
        if r < 0.7:
            return [aliased(rng)], {}
        return [], {"p": x, "q": x}
    if rng.random() < 0.12:
        if rng.random() < 0.5:
            return [big_value(rng)], {}
        return [], {"big key": big_value(rng)}
    sub = (lambda v: gen.subclassed(rng, v, 0.6)) if rng.random() < 0.08 else (lambda v: v)
    # (sub: the same data held in OrderedDict / defaultdict / namedtuple / user subclasses of list, tuple, dict)
    if rng.random() < 0.5:
        return [sub(gen.json_value(rng, 3, 3, falsy_bias=0.25)) for _ in range(rng.randint(0, 4))], {}
    # keyword names that the client's own call machinery uses as parameter / attribute names are over-weighted
    key = (lambda: rng.choice(KW_NAMES)) if rng.random() < 0.15 else (lambda: gen.rand_key(rng))
    return [], {key(): sub(gen.json_value(rng, 3, 3, falsy_bias=0.25)) for _ in range(rng.randint(0, 4))}


KW_NAMES = ["self", "cls", "args", "kwargs", "name", "attr", "method", "params", "notify", "config", "rpcid",
            "request", "version", "encoding", "id", "jsonrpc", "result", "error", "send", "__name__"]


def gen_planned(rng):
    r = rng.random()
    if r < 0.06:
        return aliased(rng)
    if r < 0.12:
        return big_value(rng)
    if r < 0.4:
        v = rng.choice(gen.FALSY)
        return type(v)() if isinstance(v, (list, dict)) else v
    if r < 0.5:
        return (1, ("nested", (None,)), [(), {}])
    if r < 0.56:
        return gen.subclassed(rng, gen.json_value(rng, 4, 4, falsy_bias=0.2), 0.6)
    return gen.json_value(rng, 4, 4, falsy_bias=0.2)


def json_ok(*vals):
    return all(gen.json_text_ok(v) for v in vals)


def method_of(proxy, name, style):
    """style: 'getattr' (whole name) or 'chain' (attribute per dotted segment)."""
    if style == "chain":
        obj = proxy
        for seg in name.split("."):
            obj = getattr(obj, seg)
        return obj
    return getattr(proxy, name)


def single_call(ctx, c, rng, name, style):
    args, kwargs = gen_args(rng)
    planned = gen_planned(rng)
    if not json_ok(args, kwargs, planned):
        return
    fx = c.fx
    mark = fx.log.mark()
    hmark = (len(c.history.requests), len(c.history.responses))
    bmark = len(c.boundary)
    c.planned.clear()
    c.planned.append(planned)
    case = {"cell": list(c.cell), "style": style, "name": name, "args": args, "kwargs": kwargs, "planned": planned}
    try:
        out = ("return", method_of(c.proxy, name, style)(*args, **kwargs))
    except BaseException as ex:  # noqa
        out = ("raise", ex)
    ran = fx.log.since(mark)
    ctx.case((c.cell, style, name, gen.trepr(args), gen.trepr(kwargs), gen.trepr(planned)), nontrivial=len(ran) > 0)
    ctx.count("judged:single-call")
    judge_exchange(ctx, c, case, out, ran, [(name, args, kwargs)], [planned], hmark, bmark, "single")


def judge_exchange(ctx, c, case, out, ran, expected_calls, planned, hmark, bmark, kind):
    # exactly once, with the sent name and arguments
    want = [(n, gen.trepr({"args": gen.jn(list(a)), "kwargs": gen.jn(k)})) for n, a, k in expected_calls]
    got = [(r[0], gen.trepr(gen.jn(r[1]))) for r in ran]
    if got != want:
        if len(got) != len(want):
            key = "%s:executed-%s" % (kind, "more-than-once" if len(got) > len(want) else "fewer-times")
        elif [g[0] for g in got] != [w[0] for w in want]:
            key = "%s:wrong-callable-invoked" % kind
        else:
            key = "%s:arguments-altered" % kind
        ctx.violate(key, case, {"ran": got[:6], "expected": want[:6],
                                "outcome": out[1] if out[0] == "raise" else None})
        return
    if out[0] == "raise":
        ctx.violate("%s:raised-%s" % (kind, type(out[1]).__name__), case, {"raised": out[1]})
        return
    results = out[1]
    if kind == "single":
        if not gen.teq(results, gen.jn(planned[0])):
            ctx.violate("single:return-value-altered", case, {"returned": results, "planned": planned[0]})
    else:
        exp = [gen.jn(p) for p in planned]
        if not gen.teq(results, exp):
            ctx.violate("multicall:results-altered", case, {"returned": results, "planned": exp})
    # History records exactly the texts exchanged, in order
    hreq = c.history.requests[hmark[0]:]
    hres = c.history.responses[hmark[1]:]
    seen = c.boundary[bmark:]
    ctx.count("judged:history")
    if len(hreq) != 1 or len(hres) != 1 or len(seen) != 1:
        ctx.violate("history:%d-requests-%d-responses-for-%d-exchanges" % (len(hreq), len(hres), len(seen)), case, {})
    elif hreq[0] != seen[0][0] or hres[0] != seen[0][1]:
        which = "request" if hreq[0] != seen[0][0] else "response"
        ctx.violate("history:%s-text-differs-from-exchanged" % which, case,
                    {"history": [hreq[0][:300], hres[0][:300]], "exchanged": [seen[0][0][:300], seen[0][1][:300]]})
    if c.history.request != c.history.requests[-1] or c.history.response != c.history.responses[-1]:
        ctx.violate("history:latest-accessors-wrong", case, {})


def multicall(ctx, c, rng):
    import jsonrpclib
    r = rng.random()
    # batch sizes: mostly small; also around the places where a positional scheme could break (10/11 and 100/101:
    # textual vs numeric order of positions; powers of two) and long batches
    n = rng.randint(1, 6) if r < 0.7 else rng.randint(7, 25) if r < 0.9 else \
        rng.choice([9, 10, 11, 12, 31, 32, 33, 99, 100, 101, 128, 257])
    jobs = []
    names = [nm for nm in c.names if nm.split(".")[0] not in MC_EXCLUDED]
    all_notify = rng.random() < 0.15
    for _ in range(n):
        args, kwargs = gen_args(rng)
        jobs.append({"name": rng.choice(names), "args": args, "kwargs": kwargs,
                     "notify": all_notify or rng.random() < 0.3,
                     "planned": gen_planned(rng), "style": rng.choice(["getattr", "chain"])})
    if not all(json_ok(j["args"], j["kwargs"], j["planned"]) for j in jobs):
        return
    fx = c.fx
    # the same MultiCall object is reused for consecutive batches (a batch must leave nothing behind for the next one)
    if getattr(c, "mc", None) is None or rng.random() < 0.3:
        # (with and without the configuration argument: a batch built from a proxy uses the proxy's configuration)
        c.mc = jsonrpclib.MultiCall(c.proxy, config=c.proxy._config) if rng.random() < 0.5 else \
            jsonrpclib.MultiCall(c.proxy)
    mc = c.mc
    c.planned.clear()
    for j in jobs:
        target = mc._notify if j["notify"] else mc
        m = method_of(target, j["name"], "getattr") if j["style"] == "getattr" or "." not in j["name"] else None
        if m is None:
            segs = j["name"].split(".")
            m = getattr(target, segs[0])
            for seg in segs[1:]:
                m = getattr(m, seg)
        try:
            m(*j["args"], **j["kwargs"])
        except BaseException as ex:  # noqa
            ctx.violate("multicall:queuing-a-call-raised-%s" % type(ex).__name__,
                        {"cell": list(c.cell), "style": "multicall", "jobs": [j]}, {"raised": ex})
            c.mc = None
            return
        c.planned.append(j["planned"])
    mark = fx.log.mark()
    hmark = (len(c.history.requests), len(c.history.responses))
    bmark = len(c.boundary)
    case = {"cell": list(c.cell), "style": "multicall", "jobs": jobs}
    try:
        res = mc()
        out = ("return", [r for r in res])
    except BaseException as ex:  # noqa
        out = ("raise", ex)
    ran = fx.log.since(mark)
    ctx.case((c.cell, "multicall", gen.trepr([[j["name"], j["args"], j["kwargs"], j["notify"], j["planned"]]
                                               for j in jobs])), nontrivial=len(ran) > 0)
    ctx.count("judged:multicall")
    ctx.count("judged:multicall-positions", n)
    ctx.cell("batch-size", "1-6" if n <= 6 else "7-10" if n <= 10 else "11-99" if n < 100 else "100+")
    expected_calls = [(j["name"], j["args"], j["kwargs"]) for j in jobs]
    planned = [j["planned"] for j in jobs if not j["notify"]]
    judge_exchange(ctx, c, case, out, ran, expected_calls, planned, hmark, bmark, "multicall")


def multicall_late_job(ctx, c, rng):
    """A call queued on a MultiCall object while a batch of that very object is being exchanged (by the application code
    that runs during the exchange: here a hook of the in-process transport) belongs to the next batch: it is invoked
    exactly once, neither dropped nor sent twice."""
    import jsonrpclib
    if c.cell[1] != "bare":
        return
    fx = c.fx
    mc = jsonrpclib.MultiCall(c.proxy)
    first = "f"
    late_args = ["late", rng.randrange(1000)]
    c.planned.clear()
    c.planned.extend([1, 2, 3])
    mark = fx.log.mark()
    case = {"cell": list(c.cell), "style": "multicall-late-job", "late_args": late_args}
    ctx.case((c.cell, "multicall-late-job", tuple(late_args)), nontrivial=True)
    ctx.count("judged:multicall-late-job")
    try:
        getattr(mc, first)(0)
        c.transport.during = lambda: mc.add(*late_args)
        r1 = list(mc())
        r2 = mc()
        r2 = list(r2) if r2 is not None else []
    except BaseException as ex:  # noqa
        ctx.violate("multicall:late-job:raised-%s" % type(ex).__name__, case, {"raised": ex})
        return
    finally:
        c.transport.during = None
    ran = [(i[0], gen.jn(i[1])) for i in fx.log.since(mark)]
    late_runs = [r for r in ran if r[0] == "add"]
    if len(late_runs) != 1 or len(r1) + len(r2) != 2:
        ctx.violate("multicall:call-queued-during-an-exchange:executed-%d-time(s)" % len(late_runs), case,
                    {"ran": ran, "results_first_batch": r1, "results_second_batch": r2})


def history_overlap(ctx, c, rng):
    """Two proxies that share ONE History (a session log) with exchanges that overlap in time: while the first proxy's
    exchange is in progress, the application makes a call through the second one.  Every request and every response
    text that was exchanged is in the History; nothing else is (no placeholder, no duplicate)."""
    import jsonrpclib
    from jsonrpclib.history import History
    if c.cell[1] != "bare":
        return
    fx = c.fx
    hist = History()
    ta, tb = LoopbackTransport(fx), LoopbackTransport(fx)
    cfg = c.proxy._config
    pa = jsonrpclib.ServerProxy("http://loopback/", transport=ta, version=c.cell[0], config=cfg, history=hist)
    pb = jsonrpclib.ServerProxy("http://loopback/", transport=tb, version=c.cell[0], config=cfg, history=hist)
    c.planned.clear()
    c.planned.extend(["inner", "outer"])
    case = {"cell": list(c.cell), "style": "shared-history-overlapping-exchanges"}
    ctx.case((c.cell, "shared-history-overlap", rng.random()), nontrivial=True)
    ctx.count("judged:shared-history-overlap")
    try:
        ta.during = lambda: pb.f("b")
        pa.f("a")
    except BaseException as ex:  # noqa
        ctx.violate("history:shared-history:raised-%s" % type(ex).__name__, case, {"raised": ex})
        return
    sent = sorted(x[0] for x in ta.exchanges + tb.exchanges)
    received = sorted(x[1] for x in ta.exchanges + tb.exchanges)
    got_req = sorted(repr(x) for x in hist.requests)
    got_resp = sorted(repr(x) for x in hist.responses)
    if got_req != sorted(repr(x) for x in sent) or got_resp != sorted(repr(x) for x in received):
        ctx.violate("history:overlapping-exchanges-on-a-shared-History-not-recorded-exactly", case,
                    {"history_requests": hist.requests, "exchanged_requests": sent,
                     "history_responses": hist.responses, "exchanged_responses": received})


def multicall_method_reuse(ctx, c, rng):
    """The object returned by one attribute access on a batch is CALLED twice (m = batch.f; m(1); m(2)): two calls."""
    import jsonrpclib
    mc = jsonrpclib.MultiCall(c.proxy)
    a1, a2 = rng.randrange(1000), rng.randrange(1000, 2000)
    c.planned.clear()
    c.planned.extend(["first", "second"])
    mark = c.fx.log.mark()
    case = {"cell": list(c.cell), "style": "multicall-method-object-reused", "args": [a1, a2]}
    try:
        m = mc.f
        m(a1)
        m(a2)
        out = ("return", [r for r in mc()])
    except BaseException as ex:  # noqa
        out = ("raise", ex)
    ran = dm.inv_repr(c.fx.log.since(mark))
    ctx.case((c.cell, "multicall-method-object-reused", a1, a2), nontrivial=True)
    ctx.count("judged:multicall-method-object-reused")
    if out[0] == "raise":
        ctx.violate("multicall:method-object-called-twice:raised-%s" % type(out[1]).__name__, case, {"raised": out[1]})
    elif len(ran) != 2 or out[1] != ["first", "second"]:
        ctx.violate("multicall:method-object-called-twice:queued-%d-time(s)" % len(ran), case,
                    {"ran": ran, "results": out[1]})


def run(ctx):
    rng = ctx.rng
    per = ctx.pick(1500, 15000)
    for ci, cell in enumerate(CELLS):
        if not ctx.mine(ci):
            continue
        c = Cell(cell)
        ctx.cell("v%s" % cell[0], cell[1], cell[2], "jc" if cell[3] else "nojc")
        try:
            # every name in both styles at least once
            for name in FLAT_NAMES + INSTANCE_NAMES:
                single_call(ctx, c, rng, name, "getattr")
                if "." in name and all(s.isidentifier() for s in name.split(".")):
                    single_call(ctx, c, rng, name, "chain")
            for i in range(3):
                multicall_method_reuse(ctx, c, rng)
                multicall_late_job(ctx, c, rng)
                history_overlap(ctx, c, rng)
            for i in range(per):
                r = rng.random()
                if r < 0.7:
                    name = rng.choice(FLAT_NAMES + INSTANCE_NAMES)
                    style = "chain" if ("." in name and all(s.isidentifier() for s in name.split("."))
                                        and rng.random() < 0.5) else "getattr"
                    single_call(ctx, c, rng, name, style)
                else:
                    multicall(ctx, c, rng)
        finally:
            c.close()
        # the same callables as methods of a registered object with its own _dispatch (four of the cells in each run)
        if cell[3] and cell[1:3] in (("bare", "loopback"), ("pooled", "tcp"), ("simple", "unix")) or ci == ctx.seed % len(CELLS):
            c = Cell(cell, mode="instance-dispatch")
            ctx.cell("v%s" % cell[0], cell[1], cell[2], "jc" if cell[3] else "nojc", "instance-with-own-_dispatch")
            try:
                for name in FLAT_NAMES:
                    single_call(ctx, c, rng, name, "getattr")
                for i in range(per // 6):
                    if rng.random() < 0.7:
                        single_call(ctx, c, rng, rng.choice(FLAT_NAMES), "getattr")
                    else:
                        multicall(ctx, c, rng)
            finally:
                c.close()
    ctx.sample({"cell": list(CELLS[ctx.shard % len(CELLS)]), "style": "getattr", "name": "sub.deeper.leaf2",
                "args": [0, "", None], "planned": []})


def finalize(m, tier):
    c = m["counters"]
    out = []
    for k, lo in (("judged:single-call", 1000), ("judged:multicall", 200), ("judged:history", 1000),
                  ("judged:multicall-positions", 500)):
        if c.get(k, 0) < lo:
            out.append("monitor counter %s too low (%d < %d)" % (k, c.get(k, 0), lo))
    if len(m["cells"]) < len(CELLS):
        out.append("only %d of %d configuration cells instantiated" % (len(m["cells"]), len(CELLS)))
    return out


def replay(ctx, case):
    cell = tuple(case["cell"])
    c = Cell(cell)
    try:
        for _ in range(40):
            if case.get("style") == "multicall":
                multicall(ctx, c, ctx.rng)
            else:
                single_call(ctx, c, ctx.rng, case["name"], case["style"])
    finally:
        c.close()
