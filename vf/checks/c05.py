"""
C05 - Failures get the standard error codes and rejected requests run nothing.
"""

import json

from vf import gen, oracle, reqgen
from vf import dispatchmon as dm
from vf.peers import LoopbackTransport
from vf.probes import Spec, EXC_CLASSES, KINDS

LEVEL = "exploration"
SHARDS = {"quick": 8, "thorough": 16}
TIMEOUT = {"quick": 180, "thorough": 1500}
RULE = ("requests = method names (49 directed names incl. private / nested / dunder segments, plus random) against a "
        "registry of probe functions and a registered instance with public, private and nested attributes; generated "
        "registries of probes with 14 signature shapes (registered as plain functions, functools.wraps-decorated, bare "
        "pass-through wrappers, partials, callable instances, bound methods) x argument lists/maps of every arity; 26 ordinary exception "
        "classes x single-line messages; malformed bodies from the damage operators; structurally invalid objects from "
        "the member matrix; translator-rejected payloads; x server version {1.0,2.0}; client side through ServerProxy "
        "over a loopback transport. distinct = distinct (configuration, body); non-trivial = the reference "
        "classification produced an expected code and the probe log was compared with the expected invocations.")
RULE += (" " + 'Also: translator-rejected payloads with escaped member names; positional arguments given as a tuple (descriptor or in-process request dictionary) compared with the same call given a list.')
ASSUMPTIONS = [
    "argument mismatch = inspect.signature(f).bind(*args, **kwargs) fails for the registered callable",
    "the empty body may be answered -32700 or -32600 (it is no JSON text at all; the library reports 'no request data')",
    "a public non-callable attribute used as a method: -32601 or -32602 accepted",
    "custom dispatch functions decide their own failures: only -32603 for whatever they raise is required",
]
TECHNIQUE = "reference classification + probe-invocation log compared with the real dispatcher and ServerProxy (runtime monitoring)"
LEVEL_TEXT = ("Each generated request runs on the real dispatcher; the reference classifies it by strict JSON parsing, "
              "structural validity, name resolution (underscore segments unreachable), signature binding and the probe's "
              "declared behaviour, and the monitor compares error code, message content and the exact list of probe "
              "invocations; the client side is checked by raising through a real ServerProxy.")
LEVEL_NOTE = "Trusted: oracle.ref_entry, inspect.signature binding as the definition of 'argument mismatch'."
ASPECTS = ("code", "message", "invocations")

SIGS = ["", "a", "a, b", "a, b=1", "a=1, b=2", "*args", "a, *args", "**kw", "a, **kw", "a, *, k", "a, *, k=1",
        "a, b=2, *rest, k=3, **kw", "a, /, b", "a, /"]
MESSAGES = ["boom", "", "x y z", "é\U0001F600", "with 'quotes' and \"double\"", "colon: inside", "{braces} %s", "0",
            "tab\there", "a" * 300]
ARG_KEYS = ["a", "b", "k", "x", "kw", "args", "rest"]


def gen_registry(rng, mode="default"):
    funcs = {}
    for i, sig in enumerate(SIGS):
        funcs["f%d" % i] = Spec("f%d" % i, sig, kind=rng.choice(KINDS))
    for i, exc in enumerate(EXC_CLASSES):
        msg = rng.choice(MESSAGES)
        if exc in (KeyError,):
            msg = rng.choice(["k", "missing"])
        funcs["r%d" % i] = Spec("r%d" % i, rng.choice(["*a, **k", "a=0", ""]), ("raise", exc, msg), kind=rng.choice(KINDS))
    funcs["te"] = Spec("te", "*a, **k", ("typeerror-body", rng.choice(MESSAGES[:3])))
    tree = None
    if mode == "default":
        tree = {
            "g": Spec("i.g", rng.choice(SIGS), kind=rng.choice(KINDS)),
            "_g": Spec("i._g"),
            "n": {"h": Spec("i.n.h", rng.choice(SIGS), kind=rng.choice(KINDS)), "_h": Spec("i.n._h"),
                  "m": {"leaf": Spec("i.n.m.leaf"), "__x": Spec("i.n.m.__x")},
                  "boom": Spec("i.n.boom", "*a, **k", ("raise", rng.choice(EXC_CLASSES), rng.choice(MESSAGES)))},
            "_n": {"h": Spec("i._n.h")},
            "val": ("value", rng.choice([5, "s", None, [1]])),
        }
    return oracle.RegModel(funcs, tree, mode)


def gen_call(rng, reg):
    names = list(reg.funcs) + ["g", "_g", "n.h", "n._h", "n.m.leaf", "n.m.__x", "n.boom", "_n.h", "val", "n", "n.m",
                               "zz", "n.zz", "g.h", "n.h.__call__", "f0.x", "", "n..h"]
    m = rng.choice(names)
    if rng.random() < 0.55:
        params = [gen.json_value(rng, 1, 2) for _ in range(rng.randint(0, 4))]
    else:
        params = {k: gen.json_value(rng, 1, 2) for k in rng.sample(ARG_KEYS, rng.randint(0, 3))}
    e = {"method": m, "id": rng.choice([1, "x", 0, 2.5])}
    if rng.random() < 0.7:
        e["jsonrpc"] = "2.0"
    if params or rng.random() < 0.5:
        e["params"] = params
    return e


def one(ctx, fx, cfg, body, bclass):
    status, obs, ref, kept = dm.apply(ctx, fx, cfg, body, ASPECTS, bclass)
    judged = status in ("judged", "malformed")
    ctx.case((cfg, body), nontrivial=judged)
    ctx.cell("v%s" % cfg[0], cfg[1], bclass)
    if judged:
        ctx.count("judged:classification")
    return status, obs, ref


def client_side(ctx, rng, v):
    """The client surfaces each case as a ProtocolError carrying the code."""
    import jsonrpclib
    reg = dm.std_reg("default")
    fx = dm.Fixture(reg, version=2.0)
    tr = LoopbackTransport(fx)
    proxy = jsonrpclib.ServerProxy("http://loop/", transport=tr, version=v)
    cases = [
        ("unknown", lambda: proxy.nosuch(1), -32601),
        ("private-segment", lambda: getattr(proxy, "sub._hidden")(), -32601),
        ("private", lambda: proxy._priv(), -32601),
        ("nested-private-ns", lambda: getattr(proxy, "_hiddenns.leaf")(), -32601),
        ("bad-arity", lambda: proxy.two(1), -32602),
        ("bad-keyword", lambda: proxy.two(a=1, c=2), -32602),
        ("noargs-with-arg", lambda: proxy.noargs(1), -32602),
        ("raises", lambda: proxy.fail(), -32603),
        ("raises-nested", lambda: proxy.sub.fail(3), -32603),
        ("raises-key", lambda: proxy.failkey(), -32603),
        ("empty-method", lambda: getattr(proxy, "")(), -32600),
        ("translator-reject", lambda: proxy.echo({"__jsonclass__": ["bad-name", []]}), -32700),
        ("translator-reject-missing", lambda: proxy.echo([{"__jsonclass__": ["no.such.mod.K", []]}]), -32700),
        ("malformed-raw", lambda: jsonrpclib.jsonrpc.check_for_errors(proxy._run_request('{"jsonrpc": "2.0", "method"')),
         -32700),
        ("invalid-raw", lambda: jsonrpclib.jsonrpc.check_for_errors(proxy._run_request('{"jsonrpc": "2.0", "id": 1}')),
         -32600),
    ]
    for name, fn, code in cases:
        mark = fx.log.mark()
        try:
            r = fn()
            out = ("return", r)
        except BaseException as ex:  # noqa
            out = ("raise", ex)
        ran = fx.log.since(mark)
        ctx.case(("client", v, name))
        ctx.count("judged:client-side")
        ctx.cell("client", "v%s" % v)
        case = {"site": "client", "version": v, "case": name}
        if out[0] == "return":
            ctx.violate("client:%s:returned-a-value" % name, case, {"returned": out[1]})
            continue
        ex = out[1]
        if not isinstance(ex, jsonrpclib.ProtocolError):
            ctx.violate("client:%s:raised-%s" % (name, type(ex).__name__), case, {"raised": ex})
            continue
        got = ex.args[0][0] if ex.args and isinstance(ex.args[0], tuple) else None
        if got != code:
            ctx.violate("client:%s:code-%s" % (name, got), case, {"raised": ex, "expected_code": code})
        if code in (-32700, -32600, -32601) and ran:
            ctx.violate("client:%s:ran-something" % name, case, {"ran": dm.inv_repr(ran)})


def run(ctx):
    rng = ctx.rng
    # 1. directed names x argument shapes on the standard registry
    cfgs = [(v, "default") for v in (2.0, 1.0)]
    fxs = {cfg: dm.Fixture(dm.std_reg(cfg[1]), version=cfg[0]) for cfg in cfgs}
    arg_shapes = [None, [], [1], [1, 2], [1, 2, 3], {}, {"a": 1}, {"a": 1, "b": 2}, {"x": 5}, {"k": 1}, {"a": 1, "k": 2},
                  {"y": 0}]
    n = 0
    for name in dm.METHOD_NAMES + ["", "a" * 200, "sub.inner.x", "SUB.inner", "sub.Inner", "pub.", "é.é"]:
        for shape in arg_shapes:
            for cfg in cfgs:
                for two in (True, False):
                    n += 1
                    if not ctx.mine(n):
                        continue
                    e = {"method": name, "id": n}
                    if two:
                        e["jsonrpc"] = "2.0"
                    if shape is not None:
                        e["params"] = shape
                    one(ctx, fxs[cfg], cfg, json.dumps(e), "names")
    ctx.sample({"bclass": "names", "body": json.dumps({"jsonrpc": "2.0", "method": "sub._hidden", "id": 1})})
    # 2. generated registries: signatures x arities, exception classes
    for r in range(ctx.pick(16, 200)):
        # C05 states its codes for registries of functions and instances, not custom dispatch functions; an instance
        # routing through its own _dispatch method is an instance: whatever its methods raise is a -32603 naming it,
        # and they run exactly once (unknown names / bad arities are its _dispatch's own failures: -32603)
        mode = "default" if r % 4 != 3 else "instance-dispatch"
        v = rng.choice([2.0, 1.0])
        reg = gen_registry(rng, mode)
        fx = dm.Fixture(reg, version=v)
        cfg = (v, mode)
        for i in range(ctx.pick(250, 1500)):
            body = json.dumps(gen_call(rng, reg))
            one(ctx, fx, cfg, body, "generated-registry")
            if r == 0 and i == 0:
                ctx.sample({"bclass": "generated-registry", "body": body})
        # every exception class once, every signature with every small arity
        for name, spec in reg.funcs.items():
            for shape in ([], [1], [1, 2], [1, 2, 3], {"a": 1}, {"a": 1, "b": 2}, {"k": 1}, {"a": 1, "k": 2}, {"z": 1}):
                if spec.behave[0] != "echo" and shape not in ([], [1], {"a": 1}):
                    continue
                one(ctx, fx, cfg, json.dumps({"jsonrpc": "2.0", "method": name, "params": shape, "id": 1}), "sig-x-arity")
    # 3. malformed bodies and structurally invalid objects
    m = 0
    for text in reqgen.CORPUS:
        for d in reqgen.damaged(text):
            m += 1
            if not ctx.mine(m):
                continue
            if (m // ctx.nshards + ctx.seed) % ctx.pick(6, 1):
                continue
            cfg = cfgs[m % 2]
            one(ctx, fxs[cfg], cfg, d, "damaged")
    size = reqgen.matrix_size()
    step = ctx.pick(7, 3)
    for idx in range((ctx.seed * 5 + ctx.shard) % step, size, step * ctx.nshards):
        cfg = cfgs[idx % 2]
        one(ctx, fxs[cfg], cfg, json.dumps(reqgen.matrix_entry(idx)), "matrix")
    for i in range(ctx.pick(4000, 80000)):
        cfg = rng.choice(cfgs)
        one(ctx, fxs[cfg], cfg, reqgen.random_text(rng), "text")
    for i in range(ctx.pick(3000, 60000)):
        cfg = rng.choice(cfgs)
        kinds = [rng.choice(reqgen.ALL_KINDS) for _ in range(rng.randint(1, 5))]
        entries = [reqgen.entry_of(k, rng) for k in kinds]
        one(ctx, fxs[cfg], cfg, json.dumps(entries if len(entries) > 1 else entries[0]), "batch")
    # 4. translator-rejected payloads: -32700, nothing runs (judged here directly; C08 goes deeper)
    # other Configs of the same process (a client's, the shared DEFAULT) know local classes this server does not
    import jsonrpclib.config as cm
    other = cm.Config()
    other.classes.add(dict, "Klass")
    other.classes.add(list, "Point")
    cm.DEFAULT.classes.add(dict, "Klass")
    try:
        extra_bodies = [json.dumps({"jsonrpc": "2.0", "id": 1, "method": "echo", "params": [{"__jsonclass__": [n, []]}]})
                        for n in ("Klass", "Point", "dict")]
        _translator_part(ctx, rng, cfgs, fxs, list(reqgen.jsonclass_bodies(rng)) + extra_bodies)
    finally:
        cm.DEFAULT.classes.pop("Klass", None)
    # 5. client side
    for v in (2.0, 1.0):
        client_side(ctx, rng, v)
    # 6. positional arguments that reach the dispatcher as a TUPLE (the validation accepts lists and tuples alike):
    #    a 'builtins.tuple' descriptor as "params", or a request dictionary handed to _unmarshaled_dispatch in-process.
    #    Metamorphic oracle: same classification, same invocations as the same arguments given as a list.
    _tuple_params(ctx, rng, cfgs, fxs)


def _tuple_params(ctx, rng, cfgs, fxs):
    def code_of(parsed):
        if isinstance(parsed, dict) and isinstance(parsed.get("error"), dict):
            return parsed["error"].get("code")
        return "result" if isinstance(parsed, dict) and "result" in parsed else "other"
    n = 0
    for cfg in cfgs:
        fx = fxs[cfg]
        for name in dm.METHOD_NAMES:
            for args in ([], [1], [1, 2], [1, 2, 3], ["a", None], [[1, 2]], [{"k": 1}]):
                for two in (True, False):
                    n += 1
                    if not ctx.mine(n):
                        continue
                    e = {"method": name, "id": 7, "params": args}
                    if two:
                        e["jsonrpc"] = "2.0"
                    ref = dm.drive(fx, json.dumps(e))
                    if ref.raised is not None:
                        continue
                    want = (code_of(ref.parsed), dm.inv_repr(ref.invocations))
                    for route in ("descriptor", "in-process"):
                        if route == "descriptor":
                            obs = dm.drive(fx, json.dumps(dict(e, params={"__jsonclass__": ["builtins.tuple", [args]]})))
                            raised, parsed, invs = obs.raised, obs.parsed, obs.invocations
                        else:
                            mark = fx.log.mark()
                            raised = parsed = None
                            try:
                                parsed = fx.dispatcher._unmarshaled_dispatch(dict(e, params=tuple(args)))
                            except BaseException as ex:  # noqa
                                raised = ex
                            invs = fx.log.since(mark)
                        case = {"config": list(cfg), "bclass": "tuple-params", "route": route, "request": e}
                        ctx.case((cfg, "tuple-params", route, json.dumps(e)), nontrivial=True)
                        ctx.cell("v%s" % cfg[0], cfg[1], "tuple-params")
                        ctx.count("judged:tuple-params-vs-list-params")
                        if raised is not None:
                            ctx.violate("tuple-params:raised-%s" % type(raised).__name__, case, {"raised": raised})
                            continue
                        got = (code_of(parsed), dm.inv_repr(invs))
                        if got != want:
                            ctx.violate("code:positional-arguments-given-as-a-tuple:%s-instead-of-%s" % (got[0], want[0]),
                                        case, {"with_tuple": got, "with_list": want, "reply": parsed})


def _translator_part(ctx, rng, cfgs, fxs, bodies):
    # the same payloads with the member name written with JSON escapes (the same JSON value as the literal spelling)
    bodies = list(bodies)
    escaped = [b.replace('"__jsonclass__"', sp) for b in bodies
               for sp in ('"\\u005f_jsonclass__"', '"__jsonclass\\u005f\\u005F"') if '"__jsonclass__"' in b]
    ctx.count("translator-bodies-with-escaped-member-names", len(escaped))
    for body in bodies + escaped:
        for cfg in cfgs:
            fx = fxs[cfg]
            obs = dm.drive(fx, body)
            desc_ok = not translator_rejects(body, fx.config)
            ctx.case((cfg, body), nontrivial=not desc_ok)
            if desc_ok:
                ctx.count("unjudged:resolvable-descriptor")
                continue
            ctx.count("judged:translator-reject")
            case = {"config": list(cfg), "body": body, "bclass": "translator-reject"}
            if obs.raised is not None:
                continue  # C02's concern
            p = obs.parsed
            if not isinstance(p, dict) or not isinstance(p.get("error"), dict) or p["error"].get("code") != -32700:
                ctx.violate("code:translator-reject:%s" % (p.get("error", {}).get("code") if isinstance(p, dict)
                                                           and isinstance(p.get("error"), dict) else "no-error"),
                            case, {"output": obs.output})
            if obs.invocations:
                ctx.violate("invocations:translator-reject-ran-something", case,
                            {"ran": dm.inv_repr(obs.invocations)})


def _bare_names(value, acc):
    if isinstance(value, dict):
        d = value.get("__jsonclass__")
        if isinstance(d, list) and d and isinstance(d[0], str) and d[0] and "." not in d[0]:
            acc.append(d[0])
        for v in value.values():
            _bare_names(v, acc)
    elif isinstance(value, list):
        for v in value:
            _bare_names(v, acc)
    return acc


def translator_rejects(body, config, registered=()):
    """Does the class translator reject this payload?  A descriptor with a bare (module-less) class name that the
    harness never registered on THIS Config must be rejected, whatever other Configs of the process know (an
    independent expectation); for the rest the real translator is asked on a private copy of the parsed body
    (whether a name SHOULD be rejected is C08's question, what the server does with a rejection is C05's)."""
    import jsonrpclib.jsonclass as jc
    if any(n not in registered for n in _bare_names(json.loads(body), [])):
        return True
    try:
        jc.load(json.loads(body), config.classes)
    except Exception:
        return True
    return False


def finalize(m, tier):
    c = m["counters"]
    out = []
    for k, lo in (("judged:classification", 5000), ("entry:malformed-body", 300), ("entry:unknown-method", 200),
                  ("entry:bad-arguments", 200), ("entry:raises", 200), ("entry:ok", 200), ("entry:invalid:method", 100),
                  ("entry:invalid:params", 50), ("entry:invalid:no-version-marker", 50),
                  ("judged:translator-reject", 20), ("judged:client-side", 20), ("entry:raises-TypeError", 10)):
        if c.get(k, 0) < lo:
            out.append("monitor counter %s too low (%d < %d)" % (k, c.get(k, 0), lo))
    return out


def replay(ctx, case):
    if case.get("site") == "client":
        client_side(ctx, ctx.rng, case["version"])
        return
    cfg = tuple(case["config"])
    if case.get("bclass") in ("generated-registry", "sig-x-arity"):
        ctx.unsure("generated registries are rebuilt from the seed: re-run the check with the recorded seed/tier")
        return
    fx = dm.Fixture(dm.std_reg(cfg[1]), version=cfg[0])
    if case.get("bclass") == "translator-reject":
        obs = dm.drive(fx, case["body"])
        p = obs.parsed
        if not isinstance(p, dict) or not isinstance(p.get("error"), dict) or p["error"].get("code") != -32700:
            ctx.violate("code:translator-reject", case, {"output": obs.output})
        if obs.invocations:
            ctx.violate("invocations:translator-reject-ran-something", case, {})
        return
    one(ctx, fx, cfg, case["body"], case.get("bclass", "replay"))
