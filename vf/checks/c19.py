"""
C19 - Transport faults are contained: no foreign results, and the proxy recovers.
"""

import collections
import itertools
import threading

from vf import gen
from vf.peers import Peer, healthy_reply, http_response

LEVEL = "fault_enumeration"
SHARDS = {"quick": 8, "thorough": 16}
TIMEOUT = {"quick": 300, "thorough": 2400}
SYMBOLS = ["H", "Hc", "R", "D", "X", "S", "N", "B", "T", "Z", "J", "St", "I"]
MEANING = {"H": "healthy reply, keep-alive", "Hc": "healthy reply, then close", "R": "refuse: listener closed and reopened",
           "D": "close before reply", "X": "reset (SO_LINGER 0)", "S": "4xx/5xx with Content-Length",
           "N": "5xx without length, then close", "B": "bodiless non-200 status", "T": "truncated body",
           "Z": "empty 200", "J": "non-JSON 200", "St": "4xx/5xx whose body is truncated, then close",
           "I": "bodiless interim status (102 / 103, no length header) followed by the healthy final reply, keep-alive"}
RULE = ("fault sequences over the 13-symbol alphabet {I bodiless interim 102/103 status followed by the final reply, St non-200 with a truncated body, H healthy keep-alive, Hc healthy then close, R refuse, D close before "
        "reply, X reset, S 4xx/5xx with Content-Length, N 5xx without length then close, B bodiless status, T truncated "
        "body, Z empty 200, J non-JSON 200}: quick = all sequences of length <= 3 on TCP and <= 2 on Unix; "
        "thorough = all of length <= 4 on TCP and <= 3 on Unix plus random ones of length 5-10; plain calls, and (lengths "
        "<= 2) batches of two calls made through one long-lived MultiCall object; each played "
        "against one ServerProxy by a scripted raw-socket peer that consumes one symbol per request ARRIVAL (the inherited "
        "transport silently retries once) and is followed by 3 healthy calls. distinct = distinct (family, sequence); "
        "non-trivial = the sequence holds at least one fault symbol and every call outcome was judged against its token.")
ASSUMPTIONS = [
    "healthy replies are computed from the request actually received, so a retried request is answered consistently",
    "'refuse' closes the listener (owned by the peer's accept thread, acknowledged) for the duration of the client call",
    "S draws its status from {400, 404, 500, 503, 302, 202}; N uses 502; B uses 500/401/304/201 with Content-Length: 0 or 204/304 without any length header (kept alive)",
]
TECHNIQUE = "scripted raw-socket fault peer + per-call token oracle over enumerated fault sequences (runtime monitoring, fault enumeration)"
LEVEL_TEXT = ("Every fault sequence up to the stated length is injected into real exchanges between a real ServerProxy and a "
              "scripted peer; each call carries a unique token, so a stale or foreign reply is visible; the oracle checks "
              "own-result-or-exception, TransportError(url, status) for non-200 replies, and recovery within one call "
              "once the script is exhausted.")
LEVEL_NOTE = "Trusted: the scripted peer (vf/peers.py) and its consumption-per-arrival accounting; local sockets only."

STATUS_S = [(400, "Bad Request"), (404, "Not Found"), (500, "Internal Server Error"), (503, "Service Unavailable"),
            (302, "Found"), (202, "Accepted")]


class Script(object):
    def __init__(self, symbols, rng):
        self.q = collections.deque(symbols)
        self.lock = threading.Lock()
        self.consumed = []      # (symbol, status) in order of consumption, reset per call by the driver
        self.by_token = {}      # token carried by the request -> [(symbol, status)]: sound attribution even when a
        #                         request of an already failed call arrives late
        self.rng = rng

    def faults_remaining(self):
        with self.lock:
            return any(x != "H" for x in self.q)

    def head(self):
        with self.lock:
            return self.q[0] if self.q else None

    def pop(self):
        with self.lock:
            return self.q.popleft() if self.q else None


def make_decide(peer_box, script):
    def decide(req):
        sym = script.pop()
        status = None
        if sym is None or sym == "H":
            action = {"send": healthy_reply(req), "close": False}
        elif sym == "Hc":
            action = {"send": healthy_reply(req, keep_alive=False), "close": True}
        elif sym == "R":
            # a request arrived on an already open connection while the listener is closed: drop it,
            # the transport's retry then meets the closed listener
            action = {"drop": True}
        elif sym == "D":
            action = {"drop": True}
        elif sym == "X":
            action = {"reset": True}
        elif sym == "S":
            status, reason = script.rng.choice(STATUS_S)
            action = {"send": http_response(status, reason, b'{"error": "nope"}', keep_alive=True), "close": False}
        elif sym == "St":
            status, reason = script.rng.choice(STATUS_S[:4])
            full = http_response(status, reason, b'{"error": "this body is announced but cut short"}', keep_alive=False)
            action = {"send": full[:full.index(b"\r\n\r\n") + 4 + script.rng.randint(0, 8)], "close": True}
        elif sym == "N":
            status = 502
            action = {"send": http_response(502, "Bad Gateway", b"upstream said no", keep_alive=False,
                                            content_length=False), "close": True}
        elif sym == "B":
            status, reason, with_length = script.rng.choice([
                (500, "Internal Server Error", True), (401, "Unauthorized", True), (304, "Not Modified", True),
                (201, "Created", True),
                # statuses that never carry a body: no Content-Length at all, connection kept alive
                (204, "No Content", False), (304, "Not Modified", False)])
            action = {"send": http_response(status, reason, b"", keep_alive=True, content_length=with_length),
                      "close": False}
        elif sym == "I":
            # an interim reply as RFC 7231 / 8297 allow it (no body, no length), the final reply right behind it
            status, reason = script.rng.choice([(103, "Early Hints"), (102, "Processing")])
            interim = ("HTTP/1.1 %d %s\r\nLink: </x>; rel=preload\r\n\r\n" % (status, reason)).encode("ascii")
            if script.rng.random() < 0.5:
                action = {"send": interim + healthy_reply(req), "close": False}
            else:
                # ... or a moment later, as a server that sends hints while it computes the answer would
                action = {"send": interim, "then": (script.rng.choice([0.02, 0.05]), healthy_reply(req)), "close": False}
        elif sym == "T":
            full = healthy_reply(req, keep_alive=False)
            cut = max(full.index(b"\r\n\r\n") + 5, len(full) - script.rng.randint(1, 12))
            action = {"send": full[:cut], "close": True}
        elif sym == "Z":
            action = {"send": http_response(200, "OK", b"", keep_alive=True), "close": False}
        else:
            action = {"send": http_response(200, "OK", script.rng.choice([b"<html>oops</html>", b"not json", b"{",
                                                                          b"\xff\xfe"]), keep_alive=True), "close": False}
        tok = None
        try:
            import json as _json
            msg = _json.loads(req.body.decode("utf-8"))
            if isinstance(msg, list):
                # a batch: every entry carries <call token>/<position>; attribution by the token of the LAST entry
                # (a batch polluted by stale jobs of an earlier call still belongs to the call that sent it)
                tok = str((msg[-1].get("params") or [None])[0]).split("/")[0]
            else:
                tok = (msg.get("params") or [None])[0]
        except Exception:
            pass
        with script.lock:
            script.by_token.setdefault(tok, []).append((sym or "H*", status))
        script.consumed.append((sym or "H*", status))
        # a refusal that must meet the transport's automatic retry
        if sym in ("D", "X") and script.head() == "R":
            peer_box[0].refuse()
        return action
    return decide


def play(ctx, rng, fam, seq, peer, box, label, batches=False):
    import jsonrpclib
    script = Script(seq, rng)
    peer.decide = make_decide(box, script)
    proxy = jsonrpclib.ServerProxy(peer.url + ("/rpc" if fam == "tcp" else ""))
    # batches=True: every call is a batch of two calls made through ONE long-lived MultiCall object
    mc = jsonrpclib.MultiCall(proxy) if batches else None
    case = {"family": fam, "sequence": list(seq), "label": label, "batches": batches}
    calls = []
    n = 0
    after_faults = []      # outcomes of the calls started when no fault symbol remained
    has_fault = any(s not in ("H", "Hc") for s in seq)
    prev_ok = True         # the previous call returned: the connection state is known to be clean
    uid = "%x" % (id(script) & 0xffffff)
    while True:
        quiet = not script.faults_remaining()
        if quiet and len(after_faults) >= 3:
            break
        n += 1
        if n > len(seq) + 8:
            break
        token = "t%s-%d" % (uid, n)
        script.consumed = []
        if script.head() == "R":
            peer.refuse()
        elif peer._want_refuse or peer.refusing.is_set():
            # a refusal requested from inside the peer (to meet the transport's automatic retry) may be acknowledged
            # only after the previous call has returned: the listener must be back before a non-refusal symbol
            peer.accept_again()
        try:
            if mc is None:
                out = ("return", proxy.echo(token))
            else:
                mc.echo(token + "/0")
                if n % 2:
                    mc._notify.echo(token + "/n")      # a notification between the two calls: no reply entry
                mc.echo(token + "/1")
                got = [r for r in mc()]
                ctx.count("judged:batch-calls")
                # normalised to the shape of a plain call's result when the batch returned exactly its own two results
                if got == [{"token": token + "/0"}, {"token": token + "/1"}]:
                    out = ("return", {"token": token})
                else:
                    out = ("return", {"batch-results": got})
        except BaseException as ex:  # noqa
            out = ("raise", ex)
        if peer.refusing.is_set():
            if script.head() == "R":
                script.pop()
                with script.lock:
                    script.by_token.setdefault(token, []).append(("R", None))
            peer.accept_again()
        with script.lock:
            own = list(script.by_token.get(token, []))
        calls.append((token, [c[0] for c in own], out[0] if out[0] == "return" else type(out[1]).__name__))
        ctx.count("judged:calls")
        for c in own:
            ctx.count("symbol-consumed:" + c[0])
        last = own[-1] if own else (None, None)
        ccase = dict(case, call=n, consumed=[c[0] for c in own], previous_call_succeeded=prev_ok)
        if out[0] == "return":
            if out[1] != {"token": token}:
                ctx.violate("foreign-or-stale-result-returned", ccase,
                            {"returned": out[1], "own_token": token, "calls": calls})
            elif prev_ok and not any(c[0] in ("H", "Hc", "H*", "I") for c in own):
                # a value can only come from a healthy exchange of this very call (the final reply behind an interim one
                # counts).  Judged on the SET of symbols the call consumed: a refusal is recorded by the listener's own
                # thread and may be logged after the retry that followed it.
                ctx.violate("value-returned-although-own-exchange-was-" + str(last[0]), ccase, {"calls": calls})
        else:
            ex = out[1]
            statuses = [c[1] for c in own if c[1] is not None]
            if isinstance(ex, jsonrpclib.TransportError):
                ctx.count("judged:transport-errors")
                if getattr(ex, "errcode", None) not in statuses:
                    ctx.violate("TransportError-with-a-status-never-sent-to-this-call", ccase,
                                {"errcode": getattr(ex, "errcode", None), "own_statuses": statuses, "calls": calls})
                elif fam == "tcp" and not ("127.0.0.1:%d" % peer.port in str(ex.url) and "/rpc" in str(ex.url)):
                    ctx.violate("TransportError-without-the-url", ccase, {"url": getattr(ex, "url", None)})
            elif prev_ok and last[0] in ("S", "N", "B", "St", "I"):
                # clean connection, this call's own (last) exchange was a non-200 reply
                ctx.violate("non-200-not-surfaced-as-TransportError:" + last[0], ccase,
                            {"raised": ex, "status": last[1]})
        if quiet:
            after_faults.append((n, out[0] if out[0] == "return" else type(out[1]).__name__))
        prev_ok = out[0] == "return"
    ctx.case((fam, tuple(seq)), nontrivial=has_fault)
    ctx.count("judged:sequences")
    # recovery: once no fault remains, at most the first call may fail
    failures = [a for a in after_faults if a[1] != "return"]
    if len(failures) > 1 or (failures and failures[0][0] != after_faults[0][0]):
        ctx.violate("proxy-did-not-recover-after-faults-stopped", case, {"after_faults": after_faults, "calls": calls})
    if len(after_faults) < 3:
        ctx.count("sequences-cut-short")
    try:
        proxy("close")()
    except Exception:
        pass
    return calls


def run(ctx):
    import socket
    socket.setdefaulttimeout(30)   # a hung exchange must surface as an exception, not as a dead shard
    rng = ctx.rng
    plans = [("tcp", ctx.pick(3, 4)), ("unix", ctx.pick(2, 3))]
    for fam, maxlen in plans:
        box = [None]
        peer = Peer(fam)
        box[0] = peer
        try:
            idx = 0
            for length in range(1, maxlen + 1):
                for seq in itertools.product(SYMBOLS, repeat=length):
                    idx += 1
                    if not ctx.mine(idx):
                        continue
                    if ctx.time_left() < 10:
                        ctx.unsure("time budget exhausted at sequence %d of family %s" % (idx, fam))
                        break
                    calls = play(ctx, rng, fam, seq, peer, box, "enumerated")
                    ctx.cell(fam, "len%d" % length)
                    if idx % 997 == 1:
                        ctx.sample({"family": fam, "sequence": [MEANING[s] for s in seq], "calls": calls})
            ctx.exhaustive["%s: all fault sequences of length <= %d" % (fam, maxlen)] = True
            # the same for batches made through one long-lived MultiCall object (sequences up to length 2)
            for length in (1, 2):
                for seq in itertools.product(SYMBOLS, repeat=length):
                    idx += 1
                    if not ctx.mine(idx):
                        continue
                    if ctx.time_left() < 10:
                        break
                    play(ctx, rng, fam, seq, peer, box, "enumerated-batches", batches=True)
                    ctx.cell(fam, "batches-len%d" % length)
            if not ctx.quick:
                for i in range(1300):
                    if ctx.time_left() < 10:
                        break
                    seq = tuple(rng.choice(SYMBOLS) for _ in range(rng.randint(5, 10)))
                    play(ctx, rng, fam, seq, peer, box, "random")
                    ctx.cell(fam, "random-5-10")
        finally:
            peer.close()


def finalize(m, tier):
    c = m["counters"]
    out = []
    need_seq = 1400 if tier == "quick" else 16000
    for k, lo in (("judged:sequences", need_seq), ("judged:calls", 4 * need_seq)):
        if c.get(k, 0) < lo:
            out.append("monitor counter %s too low (%d < %d)" % (k, c.get(k, 0), lo))
    for s in SYMBOLS:
        if c.get("symbol-consumed:" + s, 0) < 40:
            out.append("fault symbol %s consumed only %d times" % (s, c.get("symbol-consumed:" + s, 0)))
    return out


def replay(ctx, case):
    fam = case["family"]
    box = [None]
    peer = Peer(fam)
    box[0] = peer
    try:
        for _ in range(5):
            play(ctx, ctx.rng, fam, tuple(case["sequence"]), peer, box, "replay")
    finally:
        peer.close()
