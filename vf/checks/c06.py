"""
C06 - The client never swallows or mistypes a server-reported error.

Reference-model monitor over generated reply objects, driven through the three
client call sites: check_for_errors, a ServerProxy over an in-process loopback
transport that answers with the crafted reply text, MultiCall result access
(index and iteration).
"""

import itertools
import json

from vf import gen
from vf.peers import CannedTransport

LEVEL = "exploration"
SHARDS = {"quick": 4, "thorough": 16}
TIMEOUT = {"quick": 120, "thorough": 900}
RULE = ("reply objects = envelope(1.0/2.0, with/without id) x error value x result value, "
        "enumerated over a directed table (every integer code around both range bounds, float/"
        "string/null/bool codes, with/without message/trace/data, single-entry objects, strings, "
        "numbers, booleans, arrays) plus seeded random replies; each driven through "
        "check_for_errors, ServerProxy calls and _notify calls over a canned loopback transport, MultiCall index and "
        "iteration at every batch position. distinct = distinct (site, reply) pairs; "
        "non-trivial = the reply carries a non-empty error or a result member (judged by the oracle).")
ASSUMPTIONS = [
    "replies use jsonrpc '2.0' or no version marker (the property's 1.0/2.0 envelopes)",
    "replies with an empty non-null error (0, '', [], {}, false) are executed and counted but not judged",
    "non-numeric / boolean codes: only 'a ProtocolError is raised' is required, not which subclass",
    "when the error object has no 'message' member the message text is not judged",
]

CODES_INT = [-32701, -32700, -32699, -32603, -32602, -32601, -32600, -32500, -32001, -32000,
             -31999, -32768, -1, 0, 1, 100, 32000, 32700, 2 ** 31, -2 ** 53, -40000, -33000, -31000]
CODES_FLOAT = [-32700.0, -32000.0, -32700.5, -31999.5, -32000.5, -32350.25, 0.0, 1.5, -32699.999]
CODES_OTHER = ["x", "-32600", "", None, True, False, [], {}, [1], {"a": 1}]


def error_table():
    out = []
    for code in CODES_INT + CODES_FLOAT + CODES_OTHER:
        for has_msg, has_trace in itertools.product((True, False), repeat=2):
            for data in ("<absent>", None, 0, "d", {"k": [1, 2]}, [False]):
                err = {"code": code}
                if has_msg:
                    err["message"] = "m%r" % (code,)
                if has_trace:
                    err["trace"] = "t%r" % (code,)
                if data != "<absent>":
                    err["data"] = data
                out.append(err)
    # falsy / non-string messages are still "the message": reported verbatim
    for code in (-32700, -32603, -32000, -31999, 0, 5, 1.5):
        for msg in ("", None, 0, False, [], {}, 0.0, " ", "0"):
            for extra in ({}, {"trace": "a trace"}, {"data": {"d": 1}}):
                out.append(dict({"code": code, "message": msg}, **extra))
    out += [{"reason": "x"}, {"message": "only message"}, {"data": 1}, {"trace": "t"},
            {"reason": ""}, {"reason": None}, {"reason": ["a"]}, {"x": {"code": 1}},
            {"a": 1, "b": 2}, {"message": "m", "data": 5}, {"message": "m", "trace": "t", "data": None},
            {"Code": 1}, {"code ": 1, "message": "m"}]
    out += ["error", "code", "some code here", "x", " ", "message", "0"]
    out += [1, -32600, 1.5, -1, 2 ** 40, True]
    out += [["code"], [1], ["x", "y"], [{"code": 1}], [None], [[]], ["code", "message"]]
    return out


EMPTY_NONNULL = [0, "", [], {}, False, 0.0]
RESULTS = ["<absent>", None, False, 0, 0.0, "", [], {}, 1, "r", [1, "a", None], {"k": {"n": None}}]


def envelopes(err, res):
    """All envelope shapes for one (error, result) pair."""
    for version in ("1.0", "2.0"):
        for rid in ("<absent>", 1, "abc", None):
            r = {}
            if version == "2.0":
                r["jsonrpc"] = "2.0"
            if rid != "<absent>":
                r["id"] = rid
            if err != "<absent>":
                r["error"] = err
            if res != "<absent>":
                r["result"] = res
            yield r


def error_kind(err):
    if isinstance(err, dict):
        if "code" in err:
            c = err["code"]
            if isinstance(c, bool):
                return "dict-code-bool"
            if isinstance(c, int):
                return "dict-code-int"
            if isinstance(c, float):
                return "dict-code-float"
            return "dict-code-" + type(c).__name__
        return "dict-single-entry" if len(err) == 1 else "dict-multi-nocode"
    if isinstance(err, str):
        return "str-containing-code" if "code" in err else "str"
    if isinstance(err, bool):
        return "bool"
    if isinstance(err, (int, float)):
        return "number"
    if isinstance(err, list):
        return "list-containing-code" if "code" in err else "list"
    return type(err).__name__


def expected(reply):
    """
    ('raise', cls_rule, args_rule) | ('return', value) | ('unjudged', why)
    cls_rule: 'plain' | 'app' | 'any'
    """
    has_err = "error" in reply
    err = reply.get("error")
    if has_err and err:
        if isinstance(err, dict) and "code" in err:
            code = err["code"]
            numeric = isinstance(code, (int, float)) and not isinstance(code, bool)
            msg = err["message"] if "message" in err else None
            if numeric and -32700 <= code <= -32000:
                return ("raise", "plain", (code, msg))
            if numeric:
                return ("raise", "app", (code, msg, err.get("data")))
            return ("raise", "any", None)
        return ("raise", "any", None)
    if has_err and err is not None:
        return ("unjudged", "empty-non-null-error")
    if "result" in reply:
        return ("return", reply["result"])
    return ("unjudged", "no-result-no-error")


class Driver(object):
    def __init__(self):
        import jsonrpclib
        import jsonrpclib.jsonrpc as jr
        self.jr = jr
        self.jsonrpclib = jsonrpclib
        self.transport = CannedTransport()
        self.proxy = jsonrpclib.ServerProxy("http://canned/", transport=self.transport)
        self.proxy1 = jsonrpclib.ServerProxy("http://canned/", transport=self.transport, version=1.0)

    def observe(self, site, reply, pos=0, batch=None):
        """Returns ('return', value) or ('raise', exception)."""
        jr = self.jr
        try:
            if site == "check_for_errors":
                out = jr.check_for_errors(reply)
                # returns its argument; the caller then reads ["result"]
                return ("return", out["result"] if isinstance(out, dict) and "result" in out else out)
            if site == "proxy":
                self.transport.reply_text = json.dumps(reply)
                proxy = self.proxy if "jsonrpc" in reply else self.proxy1
                return ("return", proxy.some_method(1, 2))
            if site == "proxy-wire":
                # the same reply through the real transport: an HTTP response of a raw peer, parsed in the transport's
                # own read chunks
                self.wire_reply = json.dumps(reply).encode("utf-8")
                wp, wp1 = self._wire()
                return ("return", (wp if "jsonrpc" in reply else wp1).some_method(1, 2))
            if site == "proxy-notify":
                self.transport.reply_text = json.dumps(reply)
                proxy = self.proxy if "jsonrpc" in reply else self.proxy1
                return ("return", proxy._notify.some_method(1, 2))
            if site == "multicall-index":
                results = self._multicall(batch)
                return ("return", results[pos])
            if site == "multicall-slice":
                # the slice form of the same access: results[pos:pos+1] is a list holding that one result
                results = self._multicall(batch)
                got = results[pos:pos + 1]
                if not isinstance(got, list) or len(got) != 1:
                    return ("return", {"<slice>": got})
                return ("return", got[0])
            if site in ("multicall-whole-reply-index", "multicall-whole-reply-iter"):
                # the server answers the WHOLE batch with one object (what JSON-RPC 2.0 prescribes for an
                # unparsable or invalid batch, and what this library's server does for -32700)
                self.transport.reply_text = json.dumps(reply)
                mc = self.jsonrpclib.MultiCall(self.proxy)
                mc.some_method(1)
                mc.other_method(2)
                results = mc()
                if site.endswith("index"):
                    return ("return", results[0])
                return ("return", [r for r in results])
        except BaseException as ex:  # noqa
            return ("raise", ex)

    def _wire(self):
        if getattr(self, "peer", None) is None:
            from vf.peers import Peer, http_response
            self.peer = Peer("tcp", decide=lambda req: {"send": http_response(200, "OK", self.wire_reply), "close": False})
            self.wire = (self.jsonrpclib.ServerProxy(self.peer.url), self.jsonrpclib.ServerProxy(self.peer.url, version=1.0))
        return self.wire

    def close(self):
        if getattr(self, "peer", None) is not None:
            for p in self.wire:
                try:
                    p("close")()
                except Exception:  # noqa
                    pass
            self.peer.close()

    def _multicall(self, batch):
        self.transport.reply_text = json.dumps(batch)
        mc = self.jsonrpclib.MultiCall(self.proxy)
        # calls (one per reply entry) mixed with notifications (which get no reply entry), pattern taken from the
        # batch itself so that a replay is deterministic
        pattern = hash(json.dumps(batch, sort_keys=True)) % 4
        for i, _ in enumerate(batch):
            if pattern == 1 and i == 0 or pattern == 2:
                mc._notify.note(i)
            mc.some_method(1)
            if pattern == 3 and i == len(batch) - 1:
                mc._notify.note(i)
        return mc()

    def observe_iter(self, batch):
        """Iterates the MultiCall results: one observation per position reached
        (a generator ends with its first exception, later positions stay unobserved)."""
        out = []
        try:
            results = self._multicall(batch)
            it = iter(results)
        except BaseException as ex:  # noqa
            return [("raise", ex)]
        while len(out) < len(batch):
            try:
                out.append(("return", next(it)))
            except StopIteration:
                break
            except BaseException as ex:  # noqa
                out.append(("raise", ex))
                break
        return out


def judge(ctx, drv, site, reply, obs):
    exp = expected(reply)
    kind = error_kind(reply.get("error")) if "error" in reply else "no-error"
    ctx.count("observed:%s" % site)
    if exp[0] == "unjudged":
        ctx.count("unjudged:" + exp[1])
        return
    if site.startswith("multicall-whole-reply") and exp[0] != "raise":
        # a single non-error object in answer to a batch: the property says nothing about it
        ctx.count("unjudged:whole-reply-without-error")
        return
    if site == "proxy-notify" and exp[0] == "return":
        # a notification call returns None whatever the reply carries (C04); only error replies are judged here
        ctx.count("unjudged:notify-result-reply")
        return
    jr = drv.jr
    case = {"site": site, "reply": reply}
    if exp[0] == "raise":
        ctx.count("judged:error-reply")
        if obs[0] == "return":
            ctx.violate("error-%s:returned-a-value" % kind, case,
                        {"returned": obs[1], "expected": "ProtocolError"})
            return
        ex = obs[1]
        if not isinstance(ex, jr.ProtocolError):
            ctx.violate("error-%s:raised-%s" % (kind, type(ex).__name__), case,
                        {"raised": ex, "expected": "ProtocolError"})
            return
        if exp[1] == "plain":
            if type(ex) is not jr.ProtocolError:
                ctx.violate("error-%s:wrong-class-%s-for-reserved-code" % (kind, type(ex).__name__),
                            case, {"raised": ex})
                return
            code, msg = exp[2]
            got = ex.args[0] if ex.args else None
            ok = (isinstance(got, tuple) and len(got) == 2 and gen.teq(got[0], code)
                  and (msg is None or gen.teq(got[1], msg)))
            if not ok:
                ctx.violate("error-%s:wrong-args-plain" % kind, case, {"args": ex.args, "expected": exp[2]})
        elif exp[1] == "app":
            if not isinstance(ex, jr.AppError):
                ctx.violate("error-%s:plain-ProtocolError-for-application-code" % kind, case,
                            {"raised": ex})
                return
            code, msg, data = exp[2]
            got = ex.args[0] if ex.args else None
            ok = (isinstance(got, tuple) and len(got) == 3 and gen.teq(got[0], code)
                  and (msg is None or gen.teq(got[1], msg)) and gen.teq(got[2], data))
            if ok:
                try:
                    ok = gen.teq(ex.data(), data)
                except Exception:
                    ok = False
            if not ok:
                ctx.violate("error-%s:wrong-args-app" % kind, case, {"args": ex.args, "expected": exp[2]})
        else:
            ctx.count("judged:any-ProtocolError:" + type(ex).__name__)
    else:
        ctx.count("judged:result-reply")
        if obs[0] == "raise":
            ctx.violate("result-reply:raised-%s" % type(obs[1]).__name__, case, {"raised": obs[1]})
        elif not gen.teq(obs[1], exp[1]):
            ctx.violate("result-reply:result-altered", case, {"returned": obs[1], "expected": exp[1]})


def run_case(ctx, drv, site, reply, pos=0, batch=None, obs=None):
    if obs is None:
        obs = drv.observe(site, reply, pos, batch)
    nontrivial = expected(reply)[0] != "unjudged"
    ctx.case((site, pos, gen.trepr(reply)), nontrivial=nontrivial)
    judge(ctx, drv, site, reply, obs)
    ctx.cell(site, error_kind(reply.get("error")) if "error" in reply else "no-error")


def rand_reply(rng):
    r = rng.random()
    if r < 0.35:
        err = rng.choice(error_table_cache)
    elif r < 0.55:
        err = gen.json_value(rng, 2, 3)
    elif r < 0.75:
        code = rng.choice([rng.randint(-32710, -31990), rng.randint(-40000, 40000),
                           rng.uniform(-32701, -31999), gen.rand_prim(rng)])
        err = {"code": code}
        if rng.random() < 0.7:
            err["message"] = gen.rand_str(rng)
        if rng.random() < 0.3:
            err["trace"] = gen.rand_str(rng)
        if rng.random() < 0.5:
            err["data"] = gen.json_value(rng, 2, 3)
        for _ in range(rng.randint(0, 2)):
            err[gen.rand_key(rng)] = gen.json_value(rng, 1, 2)
    elif r < 0.85:
        err = None
    else:
        err = "<absent>"
    res = rng.choice(["<absent>", "<absent>", gen.json_value(rng, 3, 3, falsy_bias=0.4)])
    if err in ("<absent>", None) and rng.random() < 0.8:
        res = gen.json_value(rng, 3, 3, falsy_bias=0.4)
    return rng.choice(list(envelopes(err, res)))


error_table_cache = error_table()


def run(ctx):
    drv = Driver()
    rng = ctx.rng
    table = error_table_cache
    sites = ("check_for_errors", "proxy", "multicall-index", "multicall-iter")
    idx = 0
    # directed product: enumerated, partitioned over shards
    errs = table + EMPTY_NONNULL + [None, "<absent>"]
    for err in errs:
        if err is None or (isinstance(err, str) and err == "<absent>"):
            results = RESULTS
        else:
            results = ["<absent>", None, 0, "r"]
        for res in results:
            for reply in envelopes(err, res):
                idx += 1
                if not ctx.mine(idx):
                    continue
                if ctx.quick and idx % 3 and isinstance(err, dict) and "code" in err:
                    # quick tier: a third of the (large) code table per seed-shifted slice
                    if (idx + ctx.seed) % 3:
                        continue
                for site in sites[:2] + ("proxy-notify", "multicall-whole-reply-index", "multicall-whole-reply-iter"):
                    run_case(ctx, drv, site, reply)
                ctx.sample({"site": "proxy", "reply": reply, "expected": list(map(str, expected(reply)))})
    ctx.exhaustive["directed error table x envelopes (thorough tier only)"] = not ctx.quick
    # error replies large enough to span several read chunks of the real transport, with long runs of blanks inside the
    # strings (message, data, result): the text of an error is delivered as the server wrote it
    import socket
    socket.setdefaulttimeout(30)
    w = 0
    for n in (1, 700, 1023, 1024, 1025, 2047, 2048, 3000, 4096):
        blanks = " " * n
        for err in ({"code": -32000, "message": "a" + blanks + "b"}, {"code": 5, "message": blanks, "data": [blanks, "x"]},
                    {"code": -32603, "message": "m", "data": {"k": "v" + blanks}}, "e" + blanks, blanks + "e",
                    {"code": 7, "message": "\n" * n + "z"}):
            for res in ("<absent>", None):
                for reply in envelopes(err, res):
                    w += 1
                    if ctx.mine(w):
                        run_case(ctx, drv, "proxy-wire", reply)
        for reply in list(envelopes(None, "r" + blanks + "s")) + list(envelopes("<absent>", [blanks, 0])):
            w += 1
            if ctx.mine(w):
                run_case(ctx, drv, "proxy-wire", reply)
    # batches: every position
    nb = ctx.pick(1500, 40000)
    for _ in range(nb):
        n = rng.randint(1, 6)
        batch = [rand_reply(rng) for _ in range(n)]
        for pos in range(n):
            run_case(ctx, drv, "multicall-index", batch[pos], pos, batch)
            if _ % 4 == 0:
                run_case(ctx, drv, "multicall-slice", batch[pos], pos, batch)
        for pos, obs in enumerate(drv.observe_iter(batch)):
            run_case(ctx, drv, "multicall-iter", batch[pos], pos, batch, obs=obs)
    # random singles
    nr = ctx.pick(10000, 300000)
    for _ in range(nr):
        reply = rand_reply(rng)
        for site in sites[:2] + ("proxy-notify",):
            run_case(ctx, drv, site, reply)
        if _ % 5 == 0:
            run_case(ctx, drv, rng.choice(["multicall-whole-reply-index", "multicall-whole-reply-iter"]), reply)
    drv.close()


def finalize(m, tier):
    c = m["counters"]
    out = []
    for k in ("judged:error-reply", "judged:result-reply", "observed:proxy",
              "observed:multicall-index", "observed:multicall-iter", "observed:check_for_errors", "observed:proxy-notify"):
        if c.get(k, 0) < 100:
            out.append("monitor counter %s too low (%d)" % (k, c.get(k, 0)))
    return out


def replay(ctx, case):
    drv = Driver()
    reply = case["reply"]
    site = case["site"]
    if site == "multicall-iter":
        run_case(ctx, drv, site, reply, 0, [reply], obs=drv.observe_iter([reply])[0])
    elif site == "multicall-index":
        run_case(ctx, drv, site, reply, 0, [reply])
    else:
        run_case(ctx, drv, site, reply)

TECHNIQUE = "reference-model monitor over generated replies at the three client call sites (runtime monitoring)"
LEVEL_TEXT = ("Every generated reply object is pushed through the real check_for_errors, a real ServerProxy "
              "(canned loopback transport) and real MultiCall index/iteration; an independent oracle decides the "
              "exception class and arguments or the returned value. Held = no disagreement on the tens of thousands "
              "of distinct replies of this run (counts in the evidence); says nothing about replies not generated.")
LEVEL_NOTE = ("Trusted: the 40-line reference classification in vf/checks/c06.py; stdlib json for the text round trip. "
              "Unjudged by design: empty non-null errors, class of the exception for non-numeric codes, message text when "
              "the error has no 'message'.")
