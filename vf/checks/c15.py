"""
C15 - jsonclass round-trips plain data and is side-effect free.

Recording wrappers around the real jsonclass.dump / jsonclass.load take a deep
typed snapshot of the argument before the call and compare after it, on success
and on failure; a typed container-normalising oracle judges the round trip.
"""

import itertools
import json

from vf import gen

LEVEL = "exploration"
SHARDS = {"quick": 4, "thorough": 16}
TIMEOUT = {"quick": 120, "thorough": 1200}
RULE = ("values = (a) every nesting of depth <= 2 and width <= 2 over {list,tuple,set,frozenset,dict} x 6 primitives "
        "(None, False, 0, -0.0, '', 'e-acute'; dict keys 'a' and 1) enumerated completely, depth-1 shapes also over 11 "
        "primitives; (b) seeded random nestings to depth 8 / width 8 (<= 400 nodes) with string and non-string keys and "
        "primitives incl. +-2^200, -0.0, 1e308, denormals, astral text; (c) failure cases: malformed descriptors of every "
        "JSON type and length 0-3 at depth 0-2, well-formed descriptors whose construction or attribute assignment fails, "
        "serialize methods that raise. distinct = distinct typed canonical forms of (operation, value); non-trivial = "
        "the purity monitor and (for successes) the round-trip oracle were evaluated on it.")
ASSUMPTIONS = [
    "non-string dict keys are primitives (int, float, bool, None); container-valued keys (tuples, frozensets) are not "
    "generated: the property's nesting is over values, and dump passes keys through untouched",
    "dict key ORDER changes are counted (informational) but not judged: dict equality is order-insensitive",
    "NaN/Infinity are not generated (not JSON)", "bytes excluded as the property says",
]
TECHNIQUE = "before/after deep-snapshot purity monitor + typed round-trip oracle on the real dump/load (runtime monitoring)"
LEVEL_TEXT = ("The real jsonclass.dump and jsonclass.load run on every enumerated small shape and on tens of thousands of "
              "random nestings and failure cases; wrappers snapshot the argument (typed, deep) before and compare after, "
              "the oracle checks output types, JSON serialisability, typed container-normalised equality.")
LEVEL_NOTE = "Trusted: gen.trepr/cn_eq (typed canonical form), stdlib json. Small-shape sub-space is exhaustive in both tiers."

PRIMS11 = [None, True, False, 0, 1, -2 ** 200, 0.0, -0.0, 1e308, "", "é"]
PRIMS6 = [None, False, 0, -0.0, "", "é"]
PLAIN = (dict, list, str, int, float, bool, type(None))


def otrepr(x):
    """Order-sensitive variant of trepr (dict order kept) - informational only."""
    if type(x) is dict:
        return "{" + ",".join(gen.trepr(k) + "=" + otrepr(v) for k, v in x.items()) + "}"
    if type(x) in (list, tuple):
        return "[" + ",".join(otrepr(v) for v in x) + "]"
    return gen.trepr(x)


def hashable(v):
    try:
        hash(v)
        return True
    except TypeError:
        return False


def level(values, keys):
    """All containers of width <= 2 over `values`."""
    out = []
    seen = set()

    def add(v):
        t = gen.trepr(v)
        if t not in seen:
            seen.add(t)
            out.append(v)
    for n in range(3):
        for combo in itertools.product(values, repeat=n):
            add(list(combo))
            add(tuple(combo))
            if all(hashable(c) for c in combo):
                add(set(combo))
                add(frozenset(combo))
    add({})
    for k in keys:
        for v in values:
            add({k: v})
    for k1, k2 in itertools.permutations(keys, 2):
        for v1 in values:
            for v2 in values:
                add({k1: v1, k2: v2})
    return out


def small_shapes():
    d1_11 = level(PRIMS11, ["a", 1, ""])
    d1 = level(PRIMS6, ["a", 1])
    yield from d1_11
    base = PRIMS6 + d1
    # depth 2: build lazily (large)
    seen = set()
    for n in range(3):
        for combo in itertools.product(base, repeat=n):
            yield list(combo)
            yield tuple(combo)
            if all(hashable(c) for c in combo):
                t = gen.trepr(frozenset(combo))
                if t not in seen:
                    seen.add(t)
                    yield set(combo)
                    yield frozenset(combo)
    for k in ("a", 1):
        for v in base:
            yield {k: v}
    for v1 in base:
        for v2 in base:
            yield {"a": v1, 1: v2}


def plain_types_only(d, path="$"):
    """Returns the path of the first node that is not dict/list/primitive (exact types), else None."""
    t = type(d)
    if t not in PLAIN:
        return path + ":" + t.__name__
    if t is list:
        for i, v in enumerate(d):
            r = plain_types_only(v, path + "[]")
            if r:
                return r
    elif t is dict:
        for k, v in d.items():
            if type(k) not in PLAIN or type(k) in (dict, list):
                return path + ".key:" + type(k).__name__
            r = plain_types_only(v, path + ".v")
            if r:
                return r
    return None


def all_str_keys(x):
    if isinstance(x, dict):
        return all(type(k) is str and all_str_keys(v) for k, v in x.items())
    if isinstance(x, (list, tuple, set, frozenset)):
        return all(all_str_keys(v) for v in x)
    return True


def key_eq(orig, loaded):
    """cn_eq with typed dict keys (1 vs True vs 1.0 distinguished)."""
    if isinstance(orig, (list, tuple)):
        return (type(loaded) is list and len(loaded) == len(orig)
                and all(key_eq(o, l) for o, l in zip(orig, loaded)))
    if isinstance(orig, (set, frozenset)):
        if type(loaded) is not list or len(loaded) != len(orig):
            return False
        return sorted(gen.trepr(gen.cn_plain(v)) for v in orig) == sorted(gen.trepr(v) for v in loaded)
    if isinstance(orig, dict):
        if type(loaded) is not dict or len(loaded) != len(orig):
            return False
        lk = {gen.trepr(k): v for k, v in loaded.items()}
        for k, v in orig.items():
            t = gen.trepr(k)
            if t not in lk or not key_eq(v, lk[t]):
                return False
        return True
    return gen.teq(orig, loaded)


class Monitors(object):
    def __init__(self, ctx):
        import jsonrpclib.jsonclass as jc
        self.jc = jc
        self.ctx = ctx

    def dump(self, x, label, **kw):
        """purity-monitored dump. Returns ('ok', d) | ('raise', ex)"""
        ctx = self.ctx
        before, obefore = gen.trepr(x), otrepr(x)
        try:
            out = ("ok", self.jc.dump(x, **kw))
        except Exception as ex:
            out = ("raise", ex)
        ctx.count("monitor:dump-purity")
        if gen.trepr(x) != before:
            ctx.violate("dump-modified-argument:" + ("success" if out[0] == "ok" else "failure"),
                        {"op": "dump", "label": label, "value": before}, {"after": gen.trepr(x)})
        elif otrepr(x) != obefore:
            ctx.violate("dump-reordered-the-keys-of-its-argument", {"op": "dump", "label": label, "value": before},
                        {"before": obefore[:400], "after": otrepr(x)[:400]})
        return out

    def load(self, d, label, classes=None):
        ctx = self.ctx
        before, obefore = gen.trepr(d), otrepr(d)
        try:
            out = ("ok", self.jc.load(d, classes) if classes is not None else self.jc.load(d))
        except Exception as ex:
            out = ("raise", ex)
        ctx.count("monitor:load-purity")
        after = gen.trepr(d)
        if after != before:
            how = "success" if out[0] == "ok" else "failure"
            key = "load-modified-argument:" + how
            if how == "failure" and "__jsonclass__" in before and after.count("__jsonclass__") < before.count("__jsonclass__"):
                key = "failed-load-drops-jsonclass-member"
            ctx.violate(key, {"op": "load", "label": label, "value": jsonable_plain(d, before)},
                        {"before": before, "after": after,
                         "raised": out[1] if out[0] == "raise" else None})
        elif otrepr(d) != obefore:
            # same keys and values, different key ORDER: list(d), repr(d) and json.dumps(d) changed
            ctx.violate("load-reordered-the-keys-of-its-argument:" + ("success" if out[0] == "ok" else "failure"),
                        {"op": "load", "label": label, "value": jsonable_plain(d, before)},
                        {"before": obefore[:400], "after": otrepr(d)[:400]})
        return out


def jsonable_plain(d, fallback):
    try:
        json.dumps(d)
        return d
    except (TypeError, ValueError):
        return fallback


def roundtrip(ctx, mon, x, label):
    canon = ("rt", gen.trepr(x))
    ctx.cell(label, type(x).__name__)
    out = mon.dump(x, label)
    case = {"op": "roundtrip", "label": label, "value": gen.trepr(x)}
    if out[0] == "raise":
        ctx.case(canon)
        ctx.violate("dump-of-plain-data-raised-%s" % type(out[1]).__name__, case, {"raised": out[1]})
        return
    d = out[1]
    bad = plain_types_only(d)
    ctx.count("judged:dump-output-types")
    if bad:
        ctx.case(canon)
        ctx.violate("dump-output-non-plain-type:" + bad.split(":")[-1], case, {"at": bad, "dump": gen.trepr(d)})
        return
    if all_str_keys(x):
        ctx.count("judged:json-serialisable")
        try:
            import jsonrpclib.jsonrpc as jr
            text = jr.jdumps(d)
            back = jr.jloads(text)
            if not gen.teq(back, d):
                ctx.violate("dump-json-text-roundtrip-differs", case, {"dump": gen.trepr(d), "parsed": gen.trepr(back)})
        except Exception as ex:
            ctx.violate("dump-not-json-serialisable", case, {"raised": ex, "dump": gen.trepr(d)})
    lo = mon.load(d, label)
    ctx.case(canon)
    if lo[0] == "raise":
        ctx.violate("load-of-dump-raised-%s" % type(lo[1]).__name__, case, {"raised": lo[1]})
        return
    ctx.count("judged:roundtrip")
    if not key_eq(x, lo[1]):
        ctx.violate("roundtrip-mismatch", case, {"loaded": gen.trepr(lo[1]), "dump": gen.trepr(d)})


# ---------------------------------------------------------------------------
# random nestings

def rand_prim(rng):
    r = rng.random()
    if r < 0.25:
        return rng.choice(PRIMS11)
    if r < 0.35:
        return rng.choice([2 ** 200, -2 ** 200, 2 ** 64, 5e-324, 1e-310, -1e308, 2 ** 53 + 1])
    return gen.rand_prim(rng)


def rand_hashable(rng, depth, budget):
    if depth <= 0 or rng.random() < 0.6 or budget[0] <= 0:
        budget[0] -= 1
        return rand_prim(rng)
    n = rng.randint(0, 3)
    items = [rand_hashable(rng, depth - 1, budget) for _ in range(n)]
    return tuple(items) if rng.random() < 0.6 else frozenset(items)


def rand_nest(rng, depth, width, budget):
    budget[0] -= 1
    if depth <= 0 or budget[0] <= 0 or rng.random() < 0.3:
        return rand_prim(rng)
    kind = rng.choice("ltsfd")
    n = rng.randint(0, width)
    if kind == "l":
        return [rand_nest(rng, depth - 1, width, budget) for _ in range(n)]
    if kind == "t":
        return tuple(rand_nest(rng, depth - 1, width, budget) for _ in range(n))
    if kind in "sf":
        items = [rand_hashable(rng, min(depth - 1, 3), budget) for _ in range(n)]
        return set(items) if kind == "s" else frozenset(items)
    out = {}
    strkeys = rng.random() < 0.7
    for _ in range(n):
        if strkeys:
            k = gen.rand_key(rng)
        else:
            k = rng.choice([gen.rand_key(rng), rng.randint(-5, 5), 1.5, None, True, False, -0.0, 2 ** 70])
        out[k] = rand_nest(rng, depth - 1, width, budget)
    return out


# ---------------------------------------------------------------------------
# failure cases

BAD_DESCRIPTORS = [None, True, False, 0, 1.5, "", "x", "ab", "decimal.Decimal", [], ["x"], [""], [None],
                   [1], ["x", None], ["x", 1], ["x", "y"], ["", []], ["a-b", []], ["no.such.module.K", []],
                   ["decimal.NoSuch", []], ["x", [], []], [["x"], []], [{}, {}], {}, {"a": 1},
                   ["decimal.Decimal", ["abc"]], ["decimal.Decimal", [[]]], ["decimal.Decimal", {"nope": 1}],
                   ["fractions.Fraction", [1, 0]], ["datetime.date", [0, 0, 0]], ["collections.OrderedDict", 5],
                   ["K", []], ["json", []]]
# well-formed descriptors: construction succeeds, then attribute assignment / nested load fails
LATE_FAILS = [
    {"__jsonclass__": ["decimal.Decimal", ["1"]], "extra": 1},
    {"__jsonclass__": ["fractions.Fraction", [1, 2]], "x": 1},
    {"__jsonclass__": ["datetime.timedelta", [1]], "days": 5},
    {"__jsonclass__": ["types.SimpleNamespace", {}], "a": 1, "b": {"__jsonclass__": ["no.such", []]}},
    {"__jsonclass__": ["types.SimpleNamespace", {"a": 1}], "b": [{"__jsonclass__": None}]},
    {"__jsonclass__": ["argparse.Namespace", []], "z": {"k": {"__jsonclass__": ["decimal.Decimal", ["x"]]}}},
    {"a": 1, "__jsonclass__": ["decimal.Decimal", ["2"]], "z": 2},
]
GOOD = [
    {"__jsonclass__": ["types.SimpleNamespace", {}], "a": 1, "b": [1, {"c": None}]},
    {"__jsonclass__": ["decimal.Decimal", ["1.50"]]},
    {"__jsonclass__": ["types.SimpleNamespace", {"x": 1}], "inner": {"__jsonclass__": ["fractions.Fraction", [3, 4]]}},
    {"__jsonclass__": ["argparse.Namespace", []], "v": {"__jsonclass__": ["decimal.Decimal", ["7"]]}},
]


def wrap_at(rng, payload, depth):
    import copy
    x = copy.deepcopy(payload)
    for _ in range(depth):
        r = rng.random()
        if r < 0.4:
            x = [gen.rand_prim(rng), x][:: rng.choice((1, -1))]
        elif r < 0.8:
            x = {"pre": 1, gen.rand_key(rng) or "k": x, "post": [2]}
        else:
            x = {"__jsonclass__": ["types.SimpleNamespace", {}], "field": x, "other": 3}
    return x


def reshape_descriptors(rng, x):
    """The same loadable descriptors in the other shapes load accepts: trailing extra members, a tuple, a list subclass."""
    if isinstance(x, dict):
        out = {}
        for k, v in x.items():
            if k == "__jsonclass__" and isinstance(v, list) and len(v) == 2:
                name, params = v[0], reshape_descriptors(rng, v[1])
                r = rng.randrange(5)
                out[k] = ([name, params, "extra"], [name, params, None, 4], (name, params), (name, params, []),
                          gen.ListSub([name, params]))[r]
            else:
                out[k] = reshape_descriptors(rng, v)
        return out
    if isinstance(x, list):
        return [reshape_descriptors(rng, v) for v in x]
    return x


def failure_cases(ctx, mon, rng):
    import copy
    n = 0
    for desc in BAD_DESCRIPTORS:
        for extra in ({}, {"attr": 1}, {"attr": {"deep": [1]}}):
            for depth in (0, 1, 2):
                n += 1
                if not ctx.mine(n):
                    continue
                d = dict(extra)
                d["__jsonclass__"] = copy.deepcopy(desc)
                x = wrap_at(rng, d, depth)
                for classes in (None, {"K": dict}):
                    out = mon.load(x, "bad-descriptor", classes)
                    ctx.case(("load-fail", gen.trepr(x), classes is None))
                    ctx.count("judged:load-failure-purity" if out[0] == "raise" else "judged:load-success-purity")
    for payload in LATE_FAILS + GOOD:
        for depth in (0, 1, 2, 3):
            for rep in range(ctx.pick(2, 6)):
                n += 1
                if not ctx.mine(n):
                    continue
                x = wrap_at(rng, payload, depth)
                if rep % 2:
                    x = reshape_descriptors(rng, x)
                    ctx.count("descriptors-in-other-accepted-shapes")
                out = mon.load(x, "late-fail" if payload in LATE_FAILS else "good-descriptor")
                ctx.case(("load-desc", gen.trepr(x)))
                ctx.count("judged:load-failure-purity" if out[0] == "raise" else "judged:load-success-purity")
                if depth == 0 and rep == 0:
                    ctx.sample({"op": "load", "value": x, "outcome": out[0] if out[0] == "ok" else repr(out[1])[:120]})

    # dump failures: beans whose serialize method raises / returns garbage, inside plain containers
    class Raises(object):
        def __init__(self):
            self.a = [1, (2,)]

        def _serialize(self):
            raise RuntimeError("serialize failed")

    class Garbage(object):
        def __init__(self):
            self.a = {"k": (1,)}

        def _serialize(self):
            return 5

    class BadAttrs(object):
        def _serialize(self):
            return [], 7

    for cls in (Raises, Garbage, BadAttrs):
        for depth in (0, 1, 2):
            n += 1
            if not ctx.mine(n):
                continue
            bean = cls()
            state = gen.trepr(dict(bean.__dict__))
            x = bean
            for _ in range(depth):
                x = rng.choice([[1, x, (2, 3)], {"k": x, "t": (1, {4})}, (x, [1])])
            out = mon.dump(x, "dump-fail:" + cls.__name__) if depth else _dump_bean(ctx, mon, bean, cls.__name__)
            ctx.case(("dump-fail", cls.__name__, depth, n))
            ctx.count("judged:dump-failure-purity" if out[0] == "raise" else "judged:dump-success-purity")
            if gen.trepr(dict(bean.__dict__)) != state:
                ctx.violate("dump-modified-bean-state", {"op": "dump", "label": cls.__name__}, {})


def _dump_bean(ctx, mon, bean, name):
    try:
        return ("ok", mon.jc.dump(bean))
    except Exception as ex:
        return ("raise", ex)


def poison_histories(ctx, mon, rng):
    """
    Histories on shared objects: a dump (or load) that fails must have no lasting effect - after the caller
    repairs the value in place, the SAME containers must dump and round-trip like fresh ones.
    """
    class Poison(object):
        def _serialize(self):
            raise RuntimeError("poisoned")

    for i in range(ctx.pick(150, 15000)):
        # a nesting with one poisoned member at a random depth
        depth = rng.randint(1, 5)
        path = []
        root = cur = rng.choice([[], {}])
        for d in range(depth):
            nxt = rng.choice([[], {}])
            if isinstance(cur, list):
                cur.extend([gen.rand_prim(rng), nxt, (1, 2)])
            else:
                cur["k%d" % d] = nxt
                cur["t"] = (1, {2})
            path.append(cur)
            cur = nxt
        kind = rng.choice(["serialize-raises", "cycle", "too-deep"])
        if kind == "serialize-raises":
            holder = cur
            if isinstance(holder, list):
                holder.append(Poison())
            else:
                holder["poison"] = Poison()
        elif kind == "cycle":
            holder = cur
            if isinstance(holder, list):
                holder.append(root)
            else:
                holder["cycle"] = root
        else:
            holder = cur
            deep = inner = []
            tail = None
            for lvl in range(3000):
                n2 = []
                inner.append(n2)
                inner = n2
                if lvl == 2990:
                    tail = n2      # a shallow inner part of the too-deep nesting
            if isinstance(holder, list):
                holder.append(deep)
            else:
                holder["deep"] = deep
        try:
            mon.jc.dump(root)
            failed = False
        except Exception:
            failed = True
        except RecursionError:
            failed = True
        ctx.count("history:first-dump-" + ("failed" if failed else "succeeded"))
        # repair in place
        if isinstance(holder, list):
            holder.pop()
        else:
            for k in ("poison", "cycle", "deep"):
                holder.pop(k, None)
        ctx.count("judged:dump-after-failure")
        roundtrip(ctx, mon, root, "after-failed-dump:" + kind)
        for sub in path[1:]:
            roundtrip(ctx, mon, sub, "after-failed-dump:" + kind)
        if kind == "too-deep":
            roundtrip(ctx, mon, tail, "after-failed-dump:inner-level")


def run(ctx):
    mon = Monitors(ctx)
    rng = ctx.rng
    poison_histories(ctx, mon, rng)
    # (a) exhaustive small shapes, partitioned over shards (complete in both tiers)
    for idx, x in enumerate(small_shapes()):
        if not ctx.mine(idx):
            continue
        roundtrip(ctx, mon, x, "small")
        if idx % 20011 == 0:
            ctx.sample({"op": "roundtrip", "value": gen.trepr(x)})
    ctx.exhaustive["nestings of depth<=2, width<=2 over 5 container kinds x 6 primitives"] = True
    # (b) random nestings
    nr = ctx.pick(3000, 300000)
    for i in range(nr):
        budget = [rng.choice([20, 60, 150, 400])]
        x = rand_nest(rng, rng.randint(1, 8), rng.randint(1, 8), budget)
        if i % 12 == 5:
            # lists, tuples and dicts by isinstance: OrderedDict, defaultdict, namedtuple, user subclasses
            x = gen.subclassed(rng, x, 0.5)
            ctx.count("nestings-with-container-subclasses")
        roundtrip(ctx, mon, x, "random")
        if i % 1009 == 0:
            ctx.sample({"op": "roundtrip", "value": gen.trepr(x)[:300]})
    # shared sub-objects: the same container object referenced several times (a DAG is not a cycle)
    for i in range(ctx.pick(300, 6000)):
        budget = [40]
        x = rand_nest(rng, 3, 3, budget)
        if not isinstance(x, (list, dict, tuple)):
            x = [x]
        shape = rng.random()
        if shape < 0.35:
            v = [x, x]
        elif shape < 0.6:
            v = {"a": x, "b": (x, [x])}
        elif shape < 0.8:
            v = (x, {"k": x}, x)
        else:
            e = ()
            v = [e, [e], {"t": e}, x, [x]]
        roundtrip(ctx, mon, v, "shared-subobjects")
    # plain JSON data through load alone
    for i in range(ctx.pick(1000, 100000)):
        d = gen.json_value(rng, 4, 4)
        out = mon.load(d, "json")
        ctx.case(("load-json", gen.trepr(d)))
        if out[0] == "raise":
            ctx.violate("load-of-plain-json-raised-%s" % type(out[1]).__name__, {"op": "load", "value": d}, {"raised": out[1]})
        elif not gen.teq(out[1], d):
            ctx.violate("load-of-plain-json-differs", {"op": "load", "value": d}, {"loaded": gen.trepr(out[1])})
        ctx.count("judged:load-plain-json")
    # (c) failures
    failure_cases(ctx, mon, rng)


def finalize(m, tier):
    c = m["counters"]
    out = []
    for k, lo in (("monitor:dump-purity", 1000), ("monitor:load-purity", 1000), ("judged:roundtrip", 1000),
                  ("judged:json-serialisable", 500), ("judged:load-failure-purity", 50),
                  ("judged:load-success-purity", 10), ("judged:dump-failure-purity", 2),
                  ("judged:dump-after-failure", 100), ("history:first-dump-failed", 100)):
        if c.get(k, 0) < lo:
            out.append("monitor counter %s too low (%d < %d)" % (k, c.get(k, 0), lo))
    return out


def replay(ctx, case):
    mon = Monitors(ctx)
    v = case.get("value")
    if case.get("op") == "load" and isinstance(v, (dict, list)):
        mon.load(v, case.get("label", "replay"))
        mon.load(v, case.get("label", "replay"), {"K": dict})
    else:
        ctx.unsure("non-JSON witness: re-run the check with the recorded seed to reproduce (value=%s)" % str(v)[:200])
