"""
C20 - Serialisation customisation is honoured at every depth.
"""

import datetime
import decimal
import enum
import itertools
import json
import types

from vf import classgen, gen

LEVEL = "exploration"
SHARDS = {"quick": 8, "thorough": 16}
TIMEOUT = {"quick": 240, "thorough": 1800}
RULE = ("dumps = generated class shapes of C07 (dict / slotted / inherited / serialize-method) whose instances carry "
        "supported values, values of handled types and values of unsupported types (object(), functions, modules, "
        "complex, enum members, Decimals, beans held directly), x ignore lists = every subset of the field names (<= 5 "
        "fields -> <= 32 subsets, enumerated) given per object (ignore attribute) and/or per call (ignore argument), x "
        "handler tables for user classes, datetime/date/time/timedelta and the built-ins tuple, str, set, int, float, "
        "bool, NoneType, x positions {top, list, dict value, field, field-in-container}, x configured vs default names "
        "of the serialisation method and the ignore attribute (both present on the classes with distinguishable "
        "content), given through Config and through dump() arguments. distinct = distinct (class shape, instance, "
        "ignore sets, handler table, naming, position); non-trivial = a bean was dumped and the structural oracle "
        "walked its output.")
RULE += (" " + 'Also: the same value through the other routes (dumps request / response / Fault data, Fault.response, dispatcher answers to 2.0- and 1.0-form requests, a copied Config, a proxy call and a MultiCall of that proxy) compared with the direct dump; objects whose __class__ differs from their type (a __class__ property, weakref.proxy): handler of the real type used, handler of the claimed class not.')
ASSUMPTIONS = [
    "generated values never equal an ignore entry (the library documents that the ignore attribute 'holds strings "
    "and/or references': a field whose VALUE equals an entry is dropped too)",
    "the per-call ignore argument is required to act on nested beans as well (the title's 'every depth')",
    "ignore lists are lists (the library concatenates them)",
]
TECHNIQUE = "recording sentinel handlers + structural dump-output oracle over enumerated ignore subsets and handler tables (runtime monitoring)"
LEVEL_TEXT = ("The real jsonclass.dump runs on generated objects under every ignore subset, handler table and naming "
              "configuration; handlers are recording sentinels returning unique marker objects, so the oracle can check "
              "by identity that exactly the handled objects were replaced, at every depth, and that key sets equal the "
              "generated field list minus ignored and unsupported-valued fields.")
LEVEL_NOTE = "Trusted: the structural oracle in vf/checks/c20.py and the class generator."


class Marker(object):
    """Unique object returned by a recording handler."""
    __slots__ = ("n", "for_type")

    def __init__(self, n, for_type):
        self.n = n
        self.for_type = for_type

    def __repr__(self):
        return "<Marker %d for %s>" % (self.n, self.for_type)


class Handlers(object):
    def __init__(self, types_, rng=None):
        self.calls = []       # (id(obj), type name, marker, args_ok)
        self.by_obj = {}
        self.table = {}
        self.config = None
        self.falsy = {}
        for t in types_:
            if rng is not None and rng.random() < 0.3 and t not in (int, float, bool, str, type(None)):
                # a handler whose return value is falsy ("emitted verbatim" holds for None, 0, False, '' and [] too);
                # only for types whose built-in handling could not produce that very value
                self.falsy[t] = rng.choice(["none", "zero", "false", "empty-str", "empty-list"])
            self.table[t] = self._make(t)

    def _make(self, t):
        falsy = self.falsy.get(t)

        def handler(obj, serialize_method, ignore_attribute, ignore, config):
            if falsy is None:
                m = Marker(len(self.calls), t.__name__)
            else:
                m = {"none": None, "zero": 0, "false": False, "empty-str": "", "empty-list": []}[falsy]
            ok = type(obj) is t and config is self.config and isinstance(serialize_method, str) \
                and isinstance(ignore_attribute, str)
            self.calls.append((id(obj), t.__name__, m, ok))
            self.by_obj.setdefault(id(obj), []).append(m)
            return m
        return handler


def fn_value():
    return 1


UNSUPPORTED = [object(), fn_value, types, complex(1, 2), decimal.Decimal("1.5"), datetime.date(2020, 1, 2),
               type("Opaque", (), {})(), NotImplemented, Ellipsis, range(3), iter([1])]


class Color(enum.Enum):
    RED = 1
    BLUE = 2


UNSUPPORTED.append(Color.RED)

HANDLED_BUILTINS = [tuple, str, set, int, float, bool, type(None), frozenset]
HANDLED_LIBRARY = [datetime.datetime, datetime.date, datetime.time, datetime.timedelta, decimal.Decimal, complex]
LIB_VALUES = {datetime.datetime: datetime.datetime(2020, 1, 2, 3, 4, 5), datetime.date: datetime.date(2021, 5, 6),
              datetime.time: datetime.time(7, 8, 9), datetime.timedelta: datetime.timedelta(days=2, seconds=3),
              decimal.Decimal: decimal.Decimal("2.5"), complex: complex(0, 1)}


class Scene(object):
    """Generated classes + one configuration (names, handler table) for a batch of dumps."""

    def __init__(self, rng):
        import jsonrpclib.config
        self.rng = rng
        self.shapes = [classgen.gen_shape(rng, local=False) for _ in range(rng.randint(2, 3))]
        self.by_cls = {}
        self.custom_names = rng.random() < 0.5
        self.via = rng.choice(["config", "argument"]) if self.custom_names else "config"
        self.ser_name = "_ser2" if self.custom_names else "_serialize"
        self.ign_name = "_ign2" if self.custom_names else "_ignore"
        self.serialize_shape = None
        if rng.random() < 0.6:
            s = classgen.gen_shape(rng, local=False, serialize=True)
            s.serialize_name = self.ser_name
            self.serialize_shape = s
            self.shapes.append(s)
        for s in self.shapes:
            s.build()
            for link in s.chain():
                self.by_cls[link.cls] = link
        # a decoy under the OTHER name must never be consulted
        self.decoy_calls = []
        other_ser = "_serialize" if self.custom_names else "_ser2"
        self.other_ign = "_ignore" if self.custom_names else "_ign2"
        if self.serialize_shape is not None and rng.random() < 0.6:
            decoy = self.decoy_calls

            def decoy_serialize(obj):
                decoy.append(type(obj).__name__)
                return ["decoy"], {"decoy": True}
            setattr(self.serialize_shape.cls, other_ser, decoy_serialize)
        handled = []
        r = rng.random()
        if r < 0.75:
            handled += rng.sample(HANDLED_BUILTINS, rng.randint(0, 3))
            handled += rng.sample(HANDLED_LIBRARY, rng.randint(0, 3))
            if rng.random() < 0.5:
                handled.append(rng.choice(self.shapes).cls)
        self.handlers = Handlers(handled, rng)
        table = dict(self.handlers.table)
        if rng.random() < 0.2:
            table[list] = None    # a None entry means "no handler": built-in handling applies
        late = table and rng.random() < 0.3
        # (late: the Config is built with the caller's still EMPTY table, the handlers are put into that very dict
        # afterwards - the dict given to the constructor is the handler table, whatever it holds at that moment)
        given = {} if late else table
        kw = {"serialize_handlers": given}
        if self.custom_names and self.via == "config":
            kw["serialize_method"] = self.ser_name
            kw["ignore_attribute"] = self.ign_name
        self.cfg = jsonrpclib.config.Config(**kw)
        if late:
            given.update(table)
        self.handlers.config = self.cfg
        self.handled = set(handled)

    def retable(self):
        """Registers / replaces handlers on the same Config object (the documented way to add handlers:
        config.serialize_handlers[type] = fn), keeping or changing the table size."""
        rng = self.rng
        old = list(self.handled)
        mode = rng.random()
        pool = [t for t in HANDLED_BUILTINS + HANDLED_LIBRARY + [s.cls for s in self.shapes] if t not in self.handled]
        if mode < 0.5 and old and pool:
            # same size: one handler leaves, another one arrives
            gone, new = rng.choice(old), rng.choice(pool)
            handled = [t for t in old if t is not gone] + [new]
        elif mode < 0.8 and pool:
            handled = old + rng.sample(pool, min(len(pool), rng.randint(1, 2)))
        else:
            handled = rng.sample(old, rng.randint(0, len(old))) if old else []
        self.handlers = Handlers(handled, rng)
        self.handlers.config = self.cfg
        keep_none = [k for k, v in self.cfg.serialize_handlers.items() if v is None]
        self.cfg.serialize_handlers.clear()
        self.cfg.serialize_handlers.update(self.handlers.table)
        for k in keep_none:
            if k not in self.cfg.serialize_handlers:
                self.cfg.serialize_handlers[k] = None
        self.handled = set(handled)

    def dump_kwargs(self):
        kw = {"config": self.cfg}
        if self.custom_names and self.via == "argument":
            kw["serialize_method"] = self.ser_name
            kw["ignore_attribute"] = self.ign_name
        return kw

    def fields_of(self, obj):
        s = self.by_cls.get(type(obj))
        return None if s is None else [a for _, a in s.all_fields()]

    # -- values (strings are prefixed so that a value never equals a field name / ignore entry)
    def prim(self):
        rng = self.rng
        r = rng.random()
        if r < 0.2:
            return None
        if r < 0.35:
            return rng.random() < 0.5
        if r < 0.6:
            return rng.randint(-10 ** 6, 10 ** 6)
        if r < 0.75:
            return rng.uniform(-100, 100)
        return "v:" + gen.rand_str(rng, 6)

    def supported(self, depth):
        rng = self.rng
        r = rng.random()
        if depth <= 0 or r < 0.4:
            return self.prim()
        if r < 0.55:
            return [self.member(depth - 1) for _ in range(rng.randint(0, 3))]
        if r < 0.65:
            return tuple(self.member(depth - 1) for _ in range(rng.randint(0, 3)))
        if r < 0.72:
            return set(self.prim() for _ in range(rng.randint(0, 3)))
        if r < 0.78:
            return frozenset(self.prim() for _ in range(rng.randint(0, 2)))
        return {"k%d" % i: self.member(depth - 1) for i in range(rng.randint(0, 3))}

    def member(self, depth):
        """A container member: supported value, handled library value, or a bean."""
        rng = self.rng
        r = rng.random()
        if r < 0.2 and depth > 0:
            return self.instance(rng.choice(self.shapes), depth - 1)
        if r < 0.3:
            lib = [t for t in HANDLED_LIBRARY if t in self.handled]
            if lib:
                return LIB_VALUES[rng.choice(lib)]
        return self.supported(depth)

    def instance(self, shape, depth):
        rng = self.rng
        cls = shape.cls
        names = [a for _, a in shape.all_fields()]
        if shape.kind.startswith("serialize"):
            vals = [[self.prim()] if rng.random() < 0.3 else self.prim() for _ in names]
            obj = cls(*vals[:2]) if shape.kind == "serialize-list" else cls(**dict(zip(names[:2], vals[:2])))
            for n, v in zip(names[2:], vals[2:]):
                setattr(obj, n, v)
            return obj
        obj = cls()
        for n in names:
            r = rng.random()
            if r < 0.15:
                v = rng.choice(UNSUPPORTED)
            elif r < 0.22 and depth > 0:
                v = self.instance(rng.choice(self.shapes), depth - 1)   # a bean held directly: unsupported
            elif r < 0.3:
                lib = [t for t in HANDLED_LIBRARY if t in self.handled]
                v = LIB_VALUES[rng.choice(lib)] if lib else self.prim()
            else:
                v = self.supported(depth)
            setattr(obj, n, v)
        return obj


def supported_or_handled(scene, v):
    if type(v) in scene.handled:
        return True
    return isinstance(v, (dict, list, set, frozenset, tuple, str, int, float, bool, type(None), bytes))


class Oracle(object):
    def __init__(self, ctx, scene, call_ignore, own_ignores, case):
        self.ctx, self.scene = ctx, scene
        self.call_ignore = set(call_ignore)
        self.own_ignores = own_ignores     # id(obj) -> list of names
        self.case = case
        self.problems = []
        self.beans_walked = 0

    def bad(self, key, path, **detail):
        self.problems.append((key, dict(detail, at=path)))

    def walk(self, x, out, path="$"):
        scene = self.scene
        t = type(x)
        if t in scene.handled:
            marks = scene.handlers.by_obj.get(id(x), [])
            if not any(out is m for m in marks):
                tname = "user-class" if t in scene.by_cls else t.__name__
                self.bad("handler-result-not-emitted-verbatim:" + tname, path, got=repr(out)[:100],
                         handler_called=bool(marks))
            return
        if isinstance(x, (str, int, float, bool, type(None))):
            if not gen.teq(out, x):
                self.bad("primitive-altered", path, got=repr(out)[:80])
            return
        if isinstance(x, (list, tuple)):
            if type(out) is not list or len(out) != len(x):
                self.bad("sequence-shape", path, got=repr(out)[:80])
                return
            for i, (a, b) in enumerate(zip(x, out)):
                self.walk(a, b, "%s[%d]" % (path, i))
            return
        if isinstance(x, (set, frozenset)):
            if type(out) is not list or len(out) != len(x):
                self.bad("set-shape", path, got=repr(out)[:80])
            elif not all(isinstance(o, Marker) or any(gen.teq(o, m) for m in x)
                         or any(o is m for ms in scene.handlers.by_obj.values() for m in ms) for o in out):
                self.bad("set-members-altered", path, got=repr(out)[:80])
            return
        if isinstance(x, dict):
            if type(out) is not dict or set(out) != set(x):
                self.bad("dict-shape", path, got=repr(out)[:80])
                return
            for k in x:
                self.walk(x[k], out[k], "%s.%s" % (path, k))
            return
        shape = scene.by_cls.get(t)
        if shape is None:
            return   # opaque object at a container position: outside this oracle
        self.beans_walked += 1
        if type(out) is not dict or "__jsonclass__" not in out:
            self.bad("bean-not-dumped-as-jsonclass", path, got=repr(out)[:80])
            return
        if out["__jsonclass__"][0] != shape.json_name():
            self.bad("bean-class-name-wrong", path, got=out["__jsonclass__"][0])
        keys = set(out) - {"__jsonclass__"}
        if shape.kind.startswith("serialize"):
            names = [a for _, a in shape.all_fields()]
            if "decoy" in keys or out["__jsonclass__"][1:] == [["decoy"]]:
                self.bad("non-configured-serialize-method-consulted", path)
            elif keys != set(names[2:]):
                self.bad("serialize-method-attrs-not-emitted", path, got=sorted(keys))
            return
        own = self.own_ignores.get(id(x), [])
        expected = set()
        for n in scene.fields_of(x):
            v = getattr(x, n)
            if n in own or n in self.call_ignore:
                continue
            if not supported_or_handled(scene, v):
                continue
            expected.add(n)
        # the ignore attribute itself may be an instance attribute and therefore a field: not judged
        keys.discard(scene.ign_name)
        keys.discard(scene.other_ign)
        leaked_own = sorted(k for k in keys if k in own)
        leaked_call = sorted(k for k in keys if k in self.call_ignore)
        if leaked_own:
            self.bad("object-ignore-list-not-honoured" + (":nested" if path != "$" else ""), path, leaked=leaked_own)
        if leaked_call:
            self.bad("ignore-argument-not-honoured" + (":nested" if path != "$" else ""), path, leaked=leaked_call)
        extra = sorted(keys - expected - set(leaked_own) - set(leaked_call))
        missing = sorted(expected - keys)
        if extra:
            self.bad("unsupported-field-emitted", path, extra=extra)
        if missing:
            # dropped because the OTHER (non-configured) ignore attribute was consulted?
            self.bad("supported-field-missing", path, missing=missing)
        for n in expected & keys:
            self.walk(getattr(x, n), out[n], "%s.%s" % (path, n))


def subsets(names):
    for r in range(len(names) + 1):
        for c in itertools.combinations(names, r):
            yield list(c)


def one_dump(ctx, scene, x, root_bean, own_ignore, call_ignore, position, desc):
    import jsonrpclib.jsonclass as jc
    own_ignores = {}
    if own_ignore is not None:
        try:
            setattr(root_bean, scene.ign_name, list(own_ignore))
            own_ignores[id(root_bean)] = list(own_ignore)
        except AttributeError:
            own_ignore = None   # slotted class without room for the attribute
    # decoy ignore list under the non-configured name: must not be consulted
    decoy_ign = None
    names = scene.fields_of(root_bean) or []
    if names and root_bean is not None and not type(root_bean).__dict__.get("__slots__") and hasattr(root_bean, "__dict__"):
        decoy_ign = [names[0]]
        setattr(root_bean, scene.other_ign, decoy_ign)
    scene.handlers.calls[:] = []
    scene.handlers.by_obj.clear()
    del scene.decoy_calls[:]
    kw = scene.dump_kwargs()
    if call_ignore:
        kw["ignore"] = list(call_ignore)
    case = {"classes": desc, "position": position, "own_ignore": own_ignore, "call_ignore": call_ignore,
            "names": [scene.ser_name, scene.ign_name, scene.via], "handled": sorted(t.__name__ for t in scene.handled),
            "value": classgen.canon(x, scene.fields_of)[:1200]}
    ctx.case((desc, case["value"], position, tuple(own_ignore or ()), tuple(call_ignore or ()), scene.via,
              tuple(case["handled"])), nontrivial=True)
    ctx.count("dumps")
    ctx.cell("pos", position)
    ctx.cell("names", "custom-" + scene.via if scene.custom_names else "default")
    user = set(c.__name__ for c in scene.by_cls)
    for h in case["handled"]:
        ctx.cell("handler", "user-class" if h in user else h)
    try:
        out = jc.dump(x, **kw)
        if scene.via == "config" and not call_ignore:
            other_routes(ctx, scene, x, out, case)
    except Exception as ex:
        ctx.violate("dump-raised-%s" % type(ex).__name__, case, {"raised": ex})
        return
    finally:
        for attr in (scene.ign_name, scene.other_ign):
            if root_bean is not None and attr in getattr(root_bean, "__dict__", {}):
                delattr(root_bean, attr)
    orc = Oracle(ctx, scene, call_ignore or [], own_ignores, case)
    orc.walk(x, out)
    ctx.count("judged:beans-walked", orc.beans_walked)
    ctx.count("judged:handler-calls", len(scene.handlers.calls))
    if decoy_ign and decoy_ign[0] not in (own_ignore or []) and decoy_ign[0] not in (call_ignore or []):
        ctx.count("judged:decoy-ignore-attribute")
    if scene.decoy_calls:
        ctx.violate("non-configured-serialize-method-consulted", case, {"decoy_calls": scene.decoy_calls[:3]})
    if not all(c[3] for c in scene.handlers.calls):
        ctx.violate("handler-called-with-wrong-arguments", case, {})
    seen = set()
    for key, detail in orc.problems:
        if key not in seen:
            seen.add(key)
            ctx.violate(key, case, detail)


class _SkipProxyRoutes(Exception):
    pass


def other_routes(ctx, scene, x, ref, case):
    """
    The same value serialised through the library's other users of the same Config: the message construction API and
    a dispatcher answering a 2.0-form and a 1.0-form request (a 2.0 server answers the latter with a derived Config).
    Each must emit what the direct dump (judged by the oracle) emitted.
    """
    import jsonrpclib.jsonrpc as jr
    from jsonrpclib.SimpleJSONRPCServer import SimpleJSONRPCDispatcher
    try:
        want = json.loads(json.dumps(ref))
    except (TypeError, ValueError, RecursionError):
        ctx.count("routes:skipped-not-json-text")
        return
    calls = list(scene.handlers.calls)
    got = {}
    try:
        got["dumps-response"] = json.loads(jr.dumps(x, methodresponse=True, rpcid=1, config=scene.cfg))["result"]
        got["dumps-request"] = json.loads(jr.dumps([x], "m", rpcid=1, config=scene.cfg))["params"][0]
        # the data of an error travels like a result (None excepted: "no data")
        if x is not None:
            got["dumps-fault-data"] = json.loads(jr.dumps(jr.Fault(1, "m", data=x), methodresponse=True, rpcid=1,
                                                          config=scene.cfg))["error"].get("data")
            got["fault-response-data"] = json.loads(jr.Fault(1, "m", data=x, config=scene.cfg).response(7))["error"].get("data")
        disp = SimpleJSONRPCDispatcher(config=scene.cfg)
        disp.register_function(lambda: x, "get")
        for form, body in (("server-2.0-form-request", '{"jsonrpc": "2.0", "method": "get", "id": 1}'),
                           ("server-1.0-form-request", '{"method": "get", "params": [], "id": 1}')):
            reply = json.loads(disp._marshaled_dispatch(body))
            got[form] = reply.get("result") if reply.get("error") is None else {"<error>": reply["error"]}
        got["copy-of-config"] = json.loads(json.dumps(__import__("jsonrpclib.jsonclass").jsonclass.dump(
            x, config=scene.cfg.copy())))
        # a proxy configured with this Config, and a batch built from that proxy (not when a handler is registered
        # for tuple/list: it would be applied to the argument list the call machinery itself builds)
        if tuple in scene.handled or list in scene.handled:
            raise _SkipProxyRoutes()
        import jsonrpclib
        from vf.peers import CannedTransport
        tr = CannedTransport('{"jsonrpc": "2.0", "id": 1, "result": null}')
        proxy = jsonrpclib.ServerProxy("http://canned/", transport=tr, config=scene.cfg)
        proxy.m(x)
        got["proxy-call"] = json.loads(tr.requests[-1][2])["params"][0]
        tr.reply_text = '[{"jsonrpc": "2.0", "id": 1, "result": null}]'
        mc = jsonrpclib.MultiCall(proxy)
        mc.m(x)
        mc()
        got["multicall-of-that-proxy"] = json.loads(tr.requests[-1][2])[0]["params"][0]
    except _SkipProxyRoutes:
        ctx.count("routes:proxy-routes-skipped-container-handler")
    except Exception as ex:
        ctx.violate("route-raised-%s" % type(ex).__name__, case, {"raised": ex, "routes_done": sorted(got)})
        return
    finally:
        scene.handlers.calls[:] = calls
    for route, val in got.items():
        ctx.count("judged:route:" + route)
        if not gen.teq(val, want):
            ctx.violate("route-differs-from-direct-dump:" + route, case,
                        {"route": route, "got": gen.trepr(val)[:600], "direct": gen.trepr(want)[:600]})


def wrap(x, position):
    if position == "top":
        return x
    if position == "list":
        return [0, x]
    if position == "dict":
        return {"k": x}
    if position == "deep":
        return {"a": [(x, 1)]}
    return x


class _Claimed(object):
    """What the objects below claim to be."""


class _Plain(object):
    def __init__(self):
        self.v = 1


class _Liar(_Plain):
    """An object whose __class__ attribute names another class than its type (lazy proxies, mocks with a spec)."""
    @property
    def __class__(self):
        return _Claimed


def class_liars(ctx):
    """ "Exactly that type" is type(obj): a handler registered for the type of an object is used for it - also when the
    object's __class__ attribute claims something else (a property, a weakref.proxy) - and a handler registered for the
    claimed class is not."""
    import weakref
    import jsonrpclib.config
    import jsonrpclib.jsonclass as jc
    referent = _Plain()
    values = [("class-property", _Liar(), _Liar, _Claimed), ("weakref-proxy", weakref.proxy(referent), weakref.ProxyType,
                                                             _Plain)]
    for label, obj, real, claimed in values:
        for position in ("top", "list", "dict", "deep"):
            for which in ("handler-for-the-real-type", "handler-for-the-claimed-class"):
                calls = []
                marker = Marker(0, real.__name__)

                def handler(o, serialize_method, ignore_attribute, ignore, config):
                    calls.append(type(o).__name__)
                    return marker
                cfg = jsonrpclib.config.Config(serialize_handlers={(real if which.endswith("real-type") else claimed): handler})
                case = {"scenario": "class-liar", "object": label, "position": position, "registered": which}
                ctx.case(("class-liar", label, position, which), nontrivial=True)
                ctx.count("judged:class-liars")
                try:
                    out = ("ok", jc.dump(wrap(obj, position), config=cfg))
                except Exception as ex:  # noqa
                    out = ("raise", ex)
                if which.endswith("real-type"):
                    got = out[1] if out[0] == "ok" else None
                    at = {"top": lambda v: v, "list": lambda v: v[1], "dict": lambda v: v["k"],
                          "deep": lambda v: v["a"][0][0]}[position]
                    try:
                        emitted = at(got)
                    except Exception:  # noqa
                        emitted = "<nothing there>"
                    if calls != [real.__name__] or emitted is not marker:
                        ctx.violate("handler-not-consulted:object-whose-__class__-differs-from-its-type", case,
                                    {"handler_calls": calls, "outcome": out})
                elif calls:
                    ctx.violate("handler-applied-to-an-object-of-another-type:object-whose-__class__-differs-from-its-type",
                                case, {"handler_calls": calls})


def run(ctx):
    rng = ctx.rng
    if ctx.shard == 0:
        class_liars(ctx)
    for sc in range(ctx.pick(200, 2500)):
        if ctx.time_left() < 10:
            ctx.unsure("time budget exhausted after %d scenes" % sc)
            break
        scene = Scene(rng)
        desc = json.dumps([s.describe() for s in scene.shapes], sort_keys=True)
        ctx.count("scenes")
        if sc == 0:
            ctx.sample({"classes": [s.describe() for s in scene.shapes],
                        "handled": sorted(t.__name__ for t in scene.handled),
                        "names": [scene.ser_name, scene.ign_name, scene.via]})
        for si, shape in enumerate(scene.shapes):
            if si and rng.random() < 0.6:
                scene.retable()
                ctx.count("handler-table-changed-in-place")
            obj = scene.instance(shape, 2)
            names = scene.fields_of(obj) or []
            if len(names) <= 5:
                subs = list(subsets(names))
                ctx.count("objects-with-all-ignore-subsets")
            else:
                subs = [[]] + [[n] for n in names] + [rng.sample(names, rng.randint(2, len(names))) for _ in range(40)]
            ctx.count("ignore-subsets-enumerated", len(subs))
            for i, sub in enumerate(subs):
                mode = i % 3
                own = sub if mode in (0, 2) else None
                call = sub if mode == 1 else (rng.choice(subs) if mode == 2 else None)
                position = ("top", "list", "dict", "deep")[i % 4]
                one_dump(ctx, scene, wrap(obj, position), obj, own, call, position, desc)
        # handled values at every position without beans
        for rep in range(ctx.pick(4, 10)):
            v = scene.member(3)
            one_dump(ctx, scene, v, None, None, None, "plain", desc)
    ctx.exhaustive["ignore subsets of the field names of every generated object with <= 5 fields"] = True
    classgen.cleanup_modules()


def finalize(m, tier):
    c = m["counters"]
    out = []
    for k, lo in (("dumps", 2000), ("judged:beans-walked", 3000), ("judged:handler-calls", 500),
                  ("judged:decoy-ignore-attribute", 100), ("scenes", 100), ("handler-table-changed-in-place", 50)):
        if c.get(k, 0) < lo:
            out.append("monitor counter %s too low (%d < %d)" % (k, c.get(k, 0), lo))
    for cell in ("names/custom-config", "names/custom-argument", "names/default", "handler/str", "handler/tuple",
                 "handler/int", "handler/datetime", "pos/deep"):
        if cell not in m["cells"]:
            out.append("cell %s never exercised" % cell)
    return out


def replay(ctx, case):
    ctx.unsure("generated classes are rebuilt from the seed: re-run ./check C20 with the recorded seed and tier")
