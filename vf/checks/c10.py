"""
C10 - Thread pool runs every accepted task exactly once and reports it faithfully.
"""

from vf import poolcheck

LEVEL = "exploration"
SHARDS = {"quick": 12, "thorough": 16}
TIMEOUT = {"quick": 240, "thorough": 1800}
RULE = ("histories = generated client programs of 3-16 operations over {start, enqueue returning/raising/gate-blocked/"
        "sleeping task, wait for a result, stop, restart, join, join(timeout), sleep, idle sample} run by one controller "
        "and 0-2 enqueuer threads against the real ThreadPool (max 1..3, min 0..max, idle timeout 5-50 ms, mostly "
        "unbounded queue), each ended by restart-if-stopped, a drain under the bounded-progress rule, a growth probe, "
        "a final join and stop; schedules = OS interleavings with a 10 us switch interval, random line-level yields "
        "(p in .05/.2/.5), a stall sweep parking one thread role at one source line of the pool module per run, and an "
        "instruction-level stall sweep parking it at one bytecode instruction (inside a source line). "
        "distinct = distinct interleaving signatures (sequence of (thread role, event kind) in the boundary log); "
        "non-trivial = at least one task body executed.")
RULE += (" " + "Also directed program families: start()/restart under load, lifecycle calls under a burst of submissions, refused thread creations (judged on the fault-free suffix), stop() with a full bounded queue, a producer blocked on the full bounded queue, submissions landing inside start() (the controller parked at each of its lines while another thread submits its only tasks), and the retirement window (tasks separated by idle periods of about the pool's timeout while a worker is parked at each of its lines). Frozen states are confirmed as described in vf/steady.py.")
ASSUMPTIONS = [
    "a task is optional (may legitimately never run) iff an effective stop() returned, or is in progress, after its "
    "enqueue was called and the task had not started before that stop was called",
    "start/stop are issued by one controller thread (enqueues and joins may come from several)",
    "interleavings are those produced by the injector, not all interleavings",
]
TECHNIQUE = "recorded boundary history + offline exactly-once/FIFO/faithfulness checker under sys.monitoring delay injection (runtime monitoring)"
LEVEL_TEXT = ("Thousands of small client programs run on the real pool under perturbed schedules; every task carries a "
              "unique token, queue order is logged inside the queue's own mutex, and an offline checker decides "
              "exactly-once, no-start-after-stop, result/exception identity and single-worker FIFO. Evidence reports "
              "histories, distinct interleaving signatures, stall points hit and program points seen.")
LEVEL_NOTE = ("Trusted: the checker in vf/poolmon.py; the `queue` name of the pool module (MonitoredQueue injection); "
              "CPython 3.12 sys.monitoring. Cannot prove absence: preemption-bound-1 stalls plus random yields.")


INF = float("inf")
MAXES = [-1, 0, 0.1, 0.9, 1, 1.9, 3, "2", "abc", None, [], True, INF, -INF, float("nan"), -1e308]
MINS = [-5, 0, 1, 2, 5, "1", "x", None, INF, -INF, 1e308, -1e308]
QSIZES = [-1, 0, 1, 2, 0.1, "abc", None, INF, float("nan")]


def _int(x):
    """int() of a number, saturating (the clamp of an infinite minimum is the maximum, of minus infinity zero)."""
    if x != x:
        raise ValueError("nan")
    if x in (INF, -INF) or abs(x) > 1e18:
        return 10 ** 18 if x > 0 else -10 ** 18
    return int(x)


def ctor_table(ctx):
    """Constructor arguments: rejected (max < 1 or non-numeric) or clamped (min into [0, max]);
    the effective values are read out behaviourally (idle workers after start = min; saturation = max)."""
    import threading
    import time
    import jsonrpclib.threadpool as tp
    n = 0
    for mx in MAXES:
        for mn in MINS:
            for qs in QSIZES:
                n += 1
                if not ctx.mine(n):
                    continue
                if ctx.quick and (n // ctx.nshards + ctx.seed) % 2 and qs not in (0, 1):
                    continue
                case = {"ctor": [repr(mx), repr(mn), repr(qs)]}
                name = "vfctor%d_%d" % (ctx.shard, n)
                pre = set(threading.enumerate())
                try:
                    pool = tp.ThreadPool(mx, mn, queue_size=qs, timeout=0.01, logname=name)
                    out = ("ok", pool)
                except Exception as ex:
                    out = ("raise", ex)
                ctx.case(("ctor", repr(mx), repr(mn), repr(qs)))
                ctx.count("judged:constructor")
                ctx.cell("ctor", repr(mx))
                numeric_max = isinstance(mx, (int, float)) and not isinstance(mx, bool)
                if not numeric_max and not isinstance(mx, str) and mx is not True:
                    must = "reject"
                elif isinstance(mx, str):
                    must = "reject" if mx == "abc" else None   # numeric strings: unspecified
                elif mx is True:
                    must = None
                elif mx != mx:
                    must = "reject"      # not a number
                else:
                    must = "reject" if _int(mx) < 1 else ("accept" if mx != INF else None)
                numeric_min = isinstance(mn, (int, float)) and not isinstance(mn, bool)
                if must == "reject":
                    if out[0] == "ok":
                        ctx.violate("constructor-accepted-invalid-max_threads", case, {})
                    elif not isinstance(out[1], ValueError):
                        ctx.violate("constructor-raised-%s-for-invalid-max" % type(out[1]).__name__, case,
                                    {"raised": out[1]})
                    continue
                if out[0] == "raise":
                    if must == "accept" and numeric_min:
                        ctx.violate("constructor-rejected-valid-arguments", case, {"raised": out[1]})
                    else:
                        ctx.count("unjudged:ctor-rejected")
                    continue
                if must is None or not numeric_min:
                    ctx.count("unjudged:ctor-unspecified")
                    continue
                pool = out[1]
                eff_max = int(mx)
                eff_min = min(max(_int(mn), 0), eff_max)
                pool.start()
                time.sleep(0.035)
                # the pool's workers = threads that appeared since the pool was built (names are not API)
                alive = len([t for t in threading.enumerate() if t not in pre])
                gate = threading.Event()
                lock = threading.Lock()
                inside = [0, 0]

                def body():
                    with lock:
                        inside[0] += 1
                        inside[1] = max(inside[1], inside[0])
                    gate.wait(10)
                    with lock:
                        inside[0] -= 1
                accepted = 0
                for _ in range(eff_max + 2):
                    try:
                        pool.enqueue(body)
                        accepted += 1
                    except Exception:  # bounded queue full
                        break
                deadline = time.time() + 5
                want = min(eff_max, accepted)
                while inside[0] < want and time.time() < deadline:
                    time.sleep(0.002)
                time.sleep(0.01)
                peak = inside[0]
                gate.set()
                pool.stop()
                ctx.count("judged:effective-min-max")
                if alive != eff_min:
                    ctx.violate("min_threads-not-clamped-as-documented", case,
                                {"idle_workers_after_start": alive, "expected": eff_min})
                if peak > eff_max:
                    ctx.violate("more-tasks-running-than-max_threads", case, {"peak": peak, "max": eff_max})
                elif peak < want:
                    ctx.violate("pool-did-not-grow-to-max_threads", case, {"peak": peak, "expected": want})


def run(ctx):
    ctor_table(ctx)
    poolcheck.run(ctx, "C10", "c10", n_hist=ctx.pick(170, 3500), n_stall=ctx.pick(45, 10 ** 6),
                  stall_programs=ctx.pick(1, 6), n_istall=ctx.pick(40, 10 ** 6))


def finalize(m, tier):
    c = m["counters"]
    out = []
    for k, lo in (("judged:constructor", 100), ("judged:effective-min-max", 20), ("histories", 500), ("task-executions", 2000), ("checker-evaluations:C10", 500),
                  ("stall-points-hit", 100), ("mode:yield", 100), ("mode:none", 50)):
        if c.get(k, 0) < lo:
            out.append("monitor counter %s too low (%d < %d)" % (k, c.get(k, 0), lo))
    return out


def coverage_extra(m, tier):
    c = m["counters"]
    return {"cross_observations": {k: v for k, v in c.items() if k.startswith("cross_observation")},
            "stall_points_hit": c.get("stall-points-hit", 0),
            "stall_points_enumerated_per_shard": c.get("stall-points-enumerated", 0) // max(1, m and 1)}


def replay(ctx, case):
    poolcheck.replay(ctx, "C10", case)
