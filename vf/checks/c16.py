"""
C16 - Future completion protocol: done/result/callback exactly once.
"""

import sys

from vf import core, futmon, inject, poolmon

LEVEL = "exploration"
SHARDS = {"quick": 8, "thorough": 16}
TIMEOUT = {"quick": 180, "thorough": 1500}
RULE = ("scenarios = one future with 2-4 threads: an executor (FutureResult.execute called directly, or a real pool "
        "worker), a registrar doing 0-3 sequential set_callback registrations and sometimes a second registering thread "
        "(callbacks that return, raise, call sys.exit(), or have "
        "the wrong arity) before / overlapping / after completion, 0-2 observers calling done() and result(timeout); "
        "tasks returning a fresh object or a falsy value, or raising one of 26 exception classes; schedules = 10 us "
        "switch interval, random line-level yields, and a stall sweep parking one thread role at one line of execute / "
        "set_callback / __notify / EventData.* per run. distinct = distinct interleaving signatures of the boundary log; "
        "non-trivial = the task body ran and at least one registration or observation was judged.")
ASSUMPTIONS = [
    "the future has a single callback slot until it completes: a registration replaced by another one (from the same "
    "or from a second registering thread) that began before completion was published may legitimately never run; it "
    "must never run twice, and every registration made after completion runs exactly once, inside its own call",
    "in pool mode the return of execute is bounded above by the queue's task_done event",
]
TECHNIQUE = "recorded boundary history + offline completion-protocol checker under sys.monitoring delay injection (runtime monitoring)"
LEVEL_TEXT = ("Thousands of multi-threaded scenarios on the real FutureResult (directly and through a real pool worker) "
              "under perturbed schedules; unique callback objects log their invocations, the task logs its end as its last "
              "statement, observers log call/return; the offline checker decides exactly-once, argument identity, "
              "ordering of done()/result() against completion, consistency and containment of callback exceptions.")
LEVEL_NOTE = "Trusted: futmon.check; CPython sys.monitoring; interleavings limited to those the injector produces."

FUNCS = {
    "FutureResult.execute": ("executor", "worker"),
    "FutureResult.__notify": ("executor", "worker", "registrar"),
    "FutureResult.set_callback": ("registrar",),     # (vf-registrar and vf-registrar2 share the role)
    "FutureResult.done": ("observer",),
    "FutureResult.result": ("observer",),
    "EventData.set": ("executor", "worker"),
    "EventData.raise_exception": ("executor", "worker"),
    "EventData.wait": ("observer",),
    "EventData.is_set": ("registrar", "observer"),
    "EventData.data": ("executor", "worker", "registrar", "observer"),
    "EventData.exception": ("executor", "worker", "registrar"),
}


def stall_points():
    import jsonrpclib.threadpool as tp
    pts = []
    for qual, line in inject.statement_lines(tp):
        for fn, roles in FUNCS.items():
            if qual.endswith(fn):
                for role in roles:
                    for k in (1, 2):
                        pts.append({"qualname": qual, "line": line, "role": role, "k": k})
    return pts


def signature(events):
    return "|".join("%s:%s" % ("w" if poolmon.is_worker_name(n) else n[3:6], k) for _, k, n, _ in events
                    if k not in ("get_call", "get_ret"))


def run_one(ctx, inj, sc, mode, seed, p=0.0, plan=None):
    inj.configure(mode, seed=seed, p=p, plan=plan)
    hits0 = inj.hits
    run = futmon.FutureRun(sc)
    events = run.execute()
    inj.configure("none")
    ctx.count("scenarios")
    ctx.count("mode:" + mode)
    ctx.count("events", len(events))
    if plan is not None and inj.hits > hits0:
        ctx.count("stall-points-hit")
        ctx.cell("stall", plan["qualname"].split(".")[-1], plan["line"], plan["role"])
    ctx.cell(sc["mode"], sc["task"]["kind"], "regs%d" % len(sc["regs"]), "obs%d" % len(sc["observers"]))
    if run.frozen:
        if run.frozen.get("inconclusive"):
            ctx.unsure("watchdog without frozen state: " + run.frozen["what"])
    body_ran = any(e[1] == "body_end" for e in events)
    n_cb = sum(1 for e in events if e[1] == "cb")
    n_obs = sum(1 for e in events if e[1] in ("done_ret", "result_ret"))
    ctx.count("callback-invocations", n_cb)
    ctx.count("observations", n_obs)
    ctx.case(signature(events), nontrivial=body_ran and (n_cb + n_obs) > 0)
    try:
        findings = futmon.check(events, sc)
    except Exception as ex:
        ctx.unsure("checker failed: " + core.format_exc(ex)[-300:])
        findings = []
    ctx.count("checker-evaluations")
    case = {"scenario": sc, "mode": mode, "p": p, "plan": plan, "inj_seed": seed}
    for key, detail in findings:
        d = dict(detail)
        if run.frozen:
            d["frozen"] = run.frozen
        d["events"] = [[e[0], e[1], e[2], e[3]] for e in events[:60]]
        ctx.violate(key, case, d)
    if run.frozen and not run.frozen.get("inconclusive") and not findings:
        ctx.violate("scenario-frozen:" + run.frozen["what"].replace(" ", "-"), case,
                    {"frozen": run.frozen, "events": [[e[0], e[1], e[2], e[3]] for e in events[-40:]]})
    return events


def setup():
    import jsonrpclib.threadpool as tp
    poolmon.install_queue_shim()
    inj = inject.Injector([tp])
    inj.install()
    sys.setswitchinterval(1e-5)
    return inj


def run(ctx):
    inj = setup()
    rng = ctx.rng
    pts = stall_points()
    ctx.counters["stall-points-enumerated"] = len(pts)
    for i in range(ctx.pick(450, 40000)):
        if ctx.time_left() < 5:
            ctx.unsure("time budget exhausted")
            break
        sc = futmon.gen_scenario(rng)
        r = rng.random()
        if r < 0.2:
            mode, p = "none", 0.0
        else:
            mode, p = "yield", rng.choice([0.05, 0.2, 0.5])
        ev = run_one(ctx, inj, sc, mode, rng.randrange(1 << 30), p=p)
        if i < 2 and ctx.shard == 0:
            ctx.sample({"scenario": sc, "mode": mode, "events": [[e[1], e[2], e[3]] for e in ev[:30]]})
    # stall points = what the scenario threads were actually seen executing (no method name is assumed)
    learned = sorted(inj.seen)
    if learned:
        import jsonrpclib.threadpool as tpm
        roles_by_fn = {}
        for (q, l, r) in learned:
            roles_by_fn.setdefault(q, set()).add(r)
        pts = [{"qualname": q, "line": l, "role": r, "k": k} for (q, l) in sorted(set(inject.statement_lines(tpm)))
               if q in roles_by_fn for r in sorted(roles_by_fn[q]) for k in (1, 2)]
        ctx.counters["stall-points-enumerated"] = len(pts)
    mine = [pt for i, pt in enumerate(pts) if ctx.mine(i)]
    rng.shuffle(mine)
    reps = ctx.pick(3, 30)
    for pt in mine[:ctx.pick(40, 10 ** 6)]:
        if ctx.time_left() < 5:
            ctx.unsure("time budget exhausted in the stall sweep")
            break
        for _ in range(reps):
            sc = futmon.gen_scenario(rng)
            if not sc["regs"]:
                sc["regs"].append({"delay_ms": 0, "cb": "ok"})
            plan = dict(pt, budget=rng.choice([10, 40, 120]), cap=0.02)
            run_one(ctx, inj, sc, "stall", rng.randrange(1 << 30), plan=plan)
    snap = inj.snapshot()
    ctx.counters["monitored-lines-executed"] = snap["lines"]
    ctx.counters["program-points-seen"] = snap["points_seen"]
    inj.uninstall()


def finalize(m, tier):
    c = m["counters"]
    out = []
    for k, lo in (("scenarios", 1500), ("callback-invocations", 1000), ("observations", 1500),
                  ("stall-points-hit", 100), ("checker-evaluations", 1500)):
        if c.get(k, 0) < lo:
            out.append("monitor counter %s too low (%d < %d)" % (k, c.get(k, 0), lo))
    return out


def replay(ctx, case):
    inj = setup()
    hit = 0
    for i in range(50):
        before = sum(ctx._vio_per_key.values())
        run_one(ctx, inj, case["scenario"], case["mode"], case.get("inj_seed", 0) + i, p=case.get("p", 0.0),
                plan=case.get("plan"))
        if sum(ctx._vio_per_key.values()) > before:
            hit += 1
    print("replayed 50 times, violated in %d" % hit)
    inj.uninstall()
