"""
C09 - Thread pool runs every accepted task exactly once and reports it faithfully.
"""

from vf import poolcheck

LEVEL = "exploration"
SHARDS = {"quick": 12, "thorough": 16}
TIMEOUT = {"quick": 240, "thorough": 1800}
RULE = ("histories = generated client programs of 3-16 operations over {start, enqueue returning/raising/gate-blocked/"
        "sleeping task, wait for a result, stop, restart, join, join(timeout), sleep, idle sample} run by one controller "
        "and 0-2 enqueuer threads against the real ThreadPool (max 1..3, min 0..max, idle timeout 5-50 ms, mostly "
        "unbounded queue), each ended by restart-if-stopped, a drain under the bounded-progress rule, a growth probe, "
        "a final join and stop; schedules = OS interleavings with a 10 us switch interval, random line-level yields "
        "(p in .05/.2/.5), a stall sweep parking one thread role at one source line of the pool module per run, and an "
        "instruction-level stall sweep parking it at one bytecode instruction (inside a source line). "
        "distinct = distinct interleaving signatures (sequence of (thread role, event kind) in the boundary log); "
        "non-trivial = at least one task body executed.")
RULE += (" " + "Also directed program families: start()/restart under load, lifecycle calls under a burst of submissions, refused thread creations (judged on the fault-free suffix), stop() with a full bounded queue, submissions landing inside start() (the controller parked at each of its lines while another thread submits its only tasks), and the retirement window (tasks separated by idle periods of about the pool's timeout while a worker is parked at each of its lines). Frozen states are confirmed as described in vf/steady.py.")
ASSUMPTIONS = [
    "a task is optional (may legitimately never run) iff an effective stop() returned, or is in progress, after its "
    "enqueue was called and the task had not started before that stop was called",
    "start/stop are issued by one controller thread (enqueues and joins may come from several)",
    "interleavings are those produced by the injector, not all interleavings",
]
TECHNIQUE = "recorded boundary history + offline exactly-once/FIFO/faithfulness checker under sys.monitoring delay injection (runtime monitoring)"
LEVEL_TEXT = ("Thousands of small client programs run on the real pool under perturbed schedules; every task carries a "
              "unique token, queue order is logged inside the queue's own mutex, and an offline checker decides "
              "exactly-once, no-start-after-stop, result/exception identity and single-worker FIFO. Evidence reports "
              "histories, distinct interleaving signatures, stall points hit and program points seen.")
LEVEL_NOTE = ("Trusted: the checker in vf/poolmon.py; the `queue` name of the pool module (MonitoredQueue injection); "
              "CPython 3.12 sys.monitoring. Cannot prove absence: preemption-bound-1 stalls plus random yields.")


def run(ctx):
    poolcheck.run(ctx, "C09", "c09", n_hist=ctx.pick(170, 3500), n_stall=ctx.pick(45, 10 ** 6),
                  stall_programs=ctx.pick(1, 6), n_istall=ctx.pick(40, 10 ** 6))


def finalize(m, tier):
    c = m["counters"]
    out = []
    for k, lo in (("histories", 500), ("task-executions", 2000), ("checker-evaluations:C09", 500),
                  ("stall-points-hit", 100), ("mode:yield", 100), ("mode:none", 50)):
        if c.get(k, 0) < lo:
            out.append("monitor counter %s too low (%d < %d)" % (k, c.get(k, 0), lo))
    return out


def coverage_extra(m, tier):
    c = m["counters"]
    return {"cross_observations": {k: v for k, v in c.items() if k.startswith("cross_observation")},
            "stall_points_hit": c.get("stall-points-hit", 0),
            "stall_points_enumerated_per_shard": c.get("stall-points-enumerated", 0) // max(1, m and 1)}


def replay(ctx, case):
    poolcheck.replay(ctx, "C09", case)
