"""
C14 - Message construction API emits exactly the members each version requires.

Reference builder vs. the real dump/dumps/loads over the enumerated product
method x params x rpcid x version x flags x Config, plus random deep params.
"""

import collections
import decimal
import itertools
import json
import random

from vf import gen

LEVEL = "exploration"
SHARDS = {"quick": 4, "thorough": 16}
TIMEOUT = {"quick": 120, "thorough": 1200}
RULE = ("cases = (api in {dumps,dump}, method, params, rpcid, version, methodresponse, notify, Config) over the "
        "enumerated product of directed tables (thorough: complete; quick: a seed-shifted 1/8 slice) plus seeded "
        "random deep params/results/Fault data. distinct = distinct argument tuples; non-trivial = the combination "
        "is one the property speaks about (judged by the reference builder), not merely executed.")
RULE += (" " + 'Configs = default, 1.0, translation off (2.0 and 1.0), and one with its own serialize handler (Fault data must be converted by the rules of the Config in use).')
ASSUMPTIONS = [
    "unjudged (executed, counted): both flags set; empty-string or bytes method name; rpcid of boolean/array/object type; "
    "a Fault passed without methodresponse; a method name together with methodresponse",
    "generated ids are only required to be non-empty and pairwise distinct within the run",
]
TECHNIQUE = "reference-builder monitor over the enumerated argument product of dump/dumps/loads (runtime monitoring)"
LEVEL_TEXT = ("The real dump/dumps/loads are called on every cell of the argument product; a 60-line independent reference "
              "builder decides the exact member set, the id rule, the Fault rendering, the round trip and which "
              "combinations must raise TypeError/ValueError. Thorough enumerates the product completely.")
LEVEL_NOTE = ("Trusted: the reference builder in vf/checks/c14.py, stdlib json. Only the stdlib JSON backend is exercised.")

ABSENT = "<absent>"

METHODS_OK = ["m", "a.b", "é", "rpc.x", "_p", "with space"]
METHODS_BAD = [None, 5, 1.5, True, ["m"], {"m": 1}]
METHODS_UNJUDGED = ["", b"m"]

PARAMS_OK = [None, [], (), {}, [1], (1, "a"), {"k": 1}, [[]], [None], [0], [False], [""], ({},),
             [1, [2, (3, 4)], {"a": (5,)}], {"a": [], "b": {}}, [0.0, -0.0, 1e308], ["é\U0001F600"],
             {"é": None}, (None, None)]
PARAMS_SCALAR = [0, 1, "s", "", True, False, 1.5]

RPCIDS_VERBATIM = ["a", "0", 0, 0.0, -0.0, -1, 1, 1.5, 10 ** 20, 2 ** 53, "é", " "]
RPCIDS_GENERATE = [None, ""]
RPCIDS_UNJUDGED = [True, False, [], [1], {}]

VERSIONS = [None, 1.0, 2.0, "1.0", "2.0"]
FLAGS = [None, False, True]


def configs():
    from jsonrpclib.config import Config, DEFAULT
    return [("default", DEFAULT), ("v1", Config(version=1.0)),
            ("nojsonclass", Config(use_jsonclass=False)),
            ("v1-nojsonclass", Config(version=1.0, use_jsonclass=False)),
            # a custom Config that converts differently from the default one: whatever is converted for a message built
            # with it (here: the data of a Fault) is converted by ITS rules
            ("handlers", Config(serialize_handlers={decimal.Decimal: _decimal_handler}))]


def _decimal_handler(obj, serialize_method, ignore_attribute, ignore, config):
    return "D:" + str(obj)


def eff_version(version, config):
    return float(version if version else config.version)


class Gen(object):
    """Pairwise-distinctness monitor for generated ids."""
    def __init__(self):
        self.seen = set()


def judge(ctx, st, api, method, params, rpcid, version, mresp, notify, cname, config, out):
    """out = ('ok', dict_message, text_or_None) | ('raise', exc)"""
    import jsonrpclib
    Fault = jsonrpclib.Fault
    v = eff_version(version, config)
    ver = "2.0" if v >= 2 else "1.0"
    case = {"api": api, "method": method, "params": params, "rpcid": rpcid, "version": version,
            "methodresponse": mresp, "notify": notify, "config": cname}
    is_fault = isinstance(params, Fault)
    method_is_str = isinstance(method, str)

    # ---- classification of the combination
    if mresp and notify:
        ctx.count("unjudged:both-flags")
        return False
    if isinstance(method, bytes) or method == "":
        ctx.count("unjudged:empty-or-bytes-method")
        return False
    if any(rpcid is x or (type(rpcid) is type(x) and rpcid == x) for x in RPCIDS_UNJUDGED):
        ctx.count("unjudged:rpcid-type")
        return False

    def must_raise(which):
        ctx.count("judged:must-raise:" + which)
        if out[0] == "raise":
            if isinstance(out[1], (TypeError, ValueError)):
                return
            ctx.violate("invalid-combination:%s:raised-%s" % (which, type(out[1]).__name__), case,
                        {"raised": out[1]})
        else:
            ctx.violate("invalid-combination-emitted:" + which, case, {"emitted": out[1]})

    if mresp:
        if method is not None:
            ctx.count("unjudged:method-with-methodresponse")
            return False
        if is_fault:
            kind = "error-response"
        elif rpcid is None:
            must_raise("response-without-id")
            return True
        else:
            kind = "result-response"
    else:
        if is_fault:
            ctx.count("unjudged:fault-without-methodresponse")
            return False
        if not method_is_str:
            must_raise("non-string-method")
            return True
        if params is not None and not isinstance(params, (list, tuple, dict)):
            must_raise("non-container-params")
            return True
        kind = "notification" if notify else "request"

    if kind == "error-response":
        fdata0 = _FAULT_ARGS.get(id(params), (None, None, params.data))[2]
        if _exotic(fdata0) and not (config is None or config.use_jsonclass):
            ctx.count("unjudged:fault-data-needing-class-translation-with-translation-off")
            return False
    # ---- a message must have been emitted
    if out[0] == "raise":
        ctx.violate("%s-%s:raised-%s" % (kind, ver, type(out[1]).__name__), case, {"raised": out[1]})
        return True
    msg = out[1]
    ctx.count("judged:%s-%s" % (kind, ver))
    if not isinstance(msg, dict):
        ctx.violate("%s-%s:not-an-object" % (kind, ver), case, {"emitted": msg})
        return True

    # ---- expected members
    exp = {}
    id_rule = None  # 'verbatim' | 'generated' | None (fixed in exp)
    if kind in ("request", "notification"):
        exp["method"] = method
        p = gen.jn(params) if params is not None else []
        if v >= 2:
            exp["jsonrpc"] = "2.0"
            if p:
                exp["params"] = p
            if kind == "request":
                id_rule = "generated" if (rpcid is None or rpcid == "" and isinstance(rpcid, str)) else "verbatim"
        else:
            exp["params"] = p if p else []
            if kind == "request":
                id_rule = "generated" if (rpcid is None or rpcid == "" and isinstance(rpcid, str)) else "verbatim"
            else:
                exp["id"] = None
    elif kind == "result-response":
        exp["result"] = gen.jn(params)
        exp["id"] = rpcid
        if v >= 2:
            exp["jsonrpc"] = "2.0"
        else:
            exp["error"] = None
    else:
        # what the harness passed to the Fault constructor (not what the object holds afterwards)
        fcode, fmsg, fdata = _FAULT_ARGS.get(id(params), (params.faultCode, params.faultString, params.data))
        err = {"code": fcode, "message": fmsg}
        if _exotic(fdata) and not (config is None or config.use_jsonclass):
            ctx.count("unjudged:fault-data-needing-class-translation-with-translation-off")
            return False
        if fdata is not None:
            err["data"] = _norm_data(fdata, config) if _exotic(fdata) else gen.jn(fdata)
        exp["error"] = err
        exp["id"] = rpcid
        if v >= 2:
            exp["jsonrpc"] = "2.0"
        else:
            exp["result"] = None

    exp_keys = set(exp) | ({"id"} if id_rule else set())
    if set(msg) != exp_keys:
        missing = sorted(exp_keys - set(msg))
        extra = sorted(set(msg) - exp_keys)
        ctx.violate("%s-%s:members:missing=%s:extra=%s" % (kind, ver, ",".join(missing) or "-",
                                                          ",".join(extra) or "-"),
                    case, {"emitted": msg, "expected_members": sorted(exp_keys)})
        return True
    for k, ev in exp.items():
        if not gen.teq(msg[k], ev):
            if k == "id" and isinstance(rpcid, (int, float)) and not rpcid:
                ctx.violate("falsy-numeric-id-replaced", case, {"emitted": msg, "expected_id": rpcid})
            else:
                ctx.violate("%s-%s:member-%s-wrong" % (kind, ver, k), case, {"emitted": msg, "expected": ev})
            return True
    if id_rule == "verbatim":
        if not gen.teq(msg["id"], rpcid):
            if isinstance(rpcid, (int, float)) and not rpcid:
                ctx.violate("falsy-numeric-id-replaced", case, {"emitted": msg, "expected_id": rpcid})
            else:
                ctx.violate("%s-%s:supplied-id-not-verbatim" % (kind, ver), case, {"emitted": msg})
            return True
        ctx.count("judged:id-verbatim")
    elif id_rule == "generated":
        gid = msg["id"]
        if gid is None or gid == "" or isinstance(gid, (list, dict)):
            ctx.violate("%s-%s:no-id-generated" % (kind, ver), case, {"emitted": msg})
            return True
        tk = gen.trepr(gid)
        if tk in st.seen:
            ctx.violate("generated-id-repeated", case, {"id": gid})
            return True
        st.seen.add(tk)
        ctx.count("judged:id-generated-unique")
    return True


def call(api, jr, method, params, rpcid, version, mresp, notify, config):
    """Runs the real API; for dumps also parses the text back through loads."""
    try:
        if api == "dump":
            return ("ok", jr.dump(params, method, rpcid=rpcid, version=version, is_response=mresp,
                                  is_notify=notify, config=config), None)
        text = jr.dumps(params, method, methodresponse=mresp, rpcid=rpcid, version=version,
                        notify=notify, config=config)
        return ("ok", text, text)
    except Exception as ex:
        return ("raise", ex)


def one(ctx, st, jr, api, method, params, rpcid, version, mresp, notify, cname, config):
    out = call(api, jr, method, params, rpcid, version, mresp, notify, config)
    case = {"api": api, "method": method, "params": params, "rpcid": rpcid, "version": version,
            "methodresponse": mresp, "notify": notify, "config": cname}
    if out[0] == "ok" and api == "dumps":
        text = out[1]
        if not isinstance(text, str):
            ctx.violate("dumps-returned-non-text", case, {"returned": text})
            return
        try:
            plain = json.loads(text)
        except ValueError as ex:
            ctx.violate("dumps-text-not-json", case, {"text": text, "error": ex})
            return
        try:
            back = jr.loads(text, config)
        except Exception as ex:
            ctx.violate("loads-of-dumps-raised-%s" % type(ex).__name__, case, {"text": text, "error": ex})
            return
        ctx.count("monitor:loads(dumps(x))")
        if "__jsonclass__" in text:
            # (Fault data holding a Decimal: loads gives the Decimal back, plain JSON its descriptor)
            ctx.count("unjudged:roundtrip-with-class-descriptor")
        elif not gen.teq(back, plain):
            ctx.violate("roundtrip-loads-differs-from-json", case, {"loads": back, "json": plain})
            return
        out = ("ok", plain, text)
    elif out[0] == "ok":
        # the dictionary, JSON-normalised, is what dumps would emit
        out = ("ok", gen.jn(out[1]), None)
    judged = judge(ctx, st, api, method, params, rpcid, version, mresp, notify, cname, config, out)
    canon = (api, gen.trepr(method) if not isinstance(method, bytes) else repr(method),
             _ptrepr(params), gen.trepr(rpcid), repr(version), mresp, notify, cname)
    ctx.case(canon, nontrivial=bool(judged))
    ctx.cell(api, cname, "resp" if mresp else "notify" if notify else "req", repr(version))


def _ptrepr(params):
    import jsonrpclib
    if isinstance(params, jsonrpclib.Fault):
        a = _FAULT_ARGS.get(id(params), (params.faultCode, params.faultString, params.data))
        return "Fault(%s,%s,%s,%s)" % (gen.trepr(a[0]), gen.trepr(a[1]), gen.trepr(a[2]),
                                       getattr(params.config, "use_jsonclass", None))
    return gen.trepr(params)


_FAULT_ARGS = {}     # id(Fault) -> (code, message, data) as passed by the harness (the objects are kept alive below)
_FAULT_KEEP = []


def _remember(fault, args):
    _FAULT_ARGS[id(fault)] = args
    _FAULT_KEEP.append(fault)


# Fault data in the forms a result may take as well: sets, container subclasses, Decimals (class translation on)
EXOTIC_DATA = ({1}, frozenset(["a"]), {"k": {2.5}}, collections.OrderedDict([("o", 1)]), decimal.Decimal("1.5"),
               [decimal.Decimal("-2")])


def _exotic(x):
    if isinstance(x, (set, frozenset, decimal.Decimal)):
        return True
    if isinstance(x, (list, tuple)):
        return any(_exotic(v) for v in x)
    if isinstance(x, dict):
        return any(_exotic(v) for v in x.values())
    return False


def _norm_data(x, config=None):
    """What the class translator makes of plain data: sets (of one element here) and tuples become lists,
    a Decimal becomes its class descriptor - or what the Config's own handler for Decimals returns."""
    if isinstance(x, decimal.Decimal):
        handler = getattr(config, "serialize_handlers", {}).get(decimal.Decimal)
        if handler is not None:
            return handler(x, None, None, None, config)
        return {"__jsonclass__": ["decimal.Decimal", [str(x)]]}
    if isinstance(x, (list, tuple, set, frozenset)):
        return [_norm_data(v, config) for v in x]
    if isinstance(x, dict):
        return {k: _norm_data(v, config) for k, v in x.items()}
    return x


def faults():
    import jsonrpclib
    import jsonrpclib.config
    out = []
    for code in (-32700, -32600, -32000, 0, 1, -1, 500, 2 ** 40, 1.5):
        for msg in ("m", "", "é\nx"):
            for data in (None, 0, "", [], {}, False, 0.0, (), "d", {"k": [1, (2,)]}, [None]) + EXOTIC_DATA:
                for cfg in (None, jsonrpclib.config.Config(use_jsonclass=False)):
                    f = jsonrpclib.Fault(code, msg, data=data) if cfg is None else \
                        jsonrpclib.Fault(code, msg, data=data, config=cfg)
                    _remember(f, (code, msg, data))
                    out.append(f)
    return out


def run(ctx):
    import jsonrpclib.jsonrpc as jr
    rng = ctx.rng
    st = Gen()
    cfgs = configs()

    # loads("") / load(None)
    for cname, cfg in cfgs:
        r = jr.loads("", cfg)
        ctx.case(("loads-empty", cname))
        ctx.count("judged:loads-empty")
        if r is not None:
            ctx.violate("loads-empty-not-None", {"config": cname}, {"returned": r})

    methods = METHODS_OK + METHODS_BAD + METHODS_UNJUDGED
    params_all = PARAMS_OK + PARAMS_SCALAR
    rpcids = RPCIDS_VERBATIM + RPCIDS_GENERATE + RPCIDS_UNJUDGED
    space = itertools.product(methods, params_all, rpcids, VERSIONS, FLAGS, FLAGS, range(len(cfgs)))
    stride = 1 if not ctx.quick else 3
    n = 0
    for idx, (method, params, rpcid, version, mresp, notify, ci) in enumerate(space):
        if not ctx.mine(idx):
            continue
        if stride > 1 and ((idx // ctx.nshards) + ctx.seed) % stride:
            continue
        n += 1
        if n % 499 == 0:
            # an application (or its test fixtures) re-seeds the global pseudo-random generator: generated ids
            # must stay unique all the same
            random.seed(20240917)
            ctx.count("global-random-reseeded")
        api = "dump" if n % 4 == 0 else "dumps"
        cname, cfg = cfgs[ci]
        one(ctx, st, jr, api, method, params, rpcid, version, mresp, notify, cname, cfg)
        if n % 5000 == 1:
            ctx.sample({"api": api, "method": method, "params": params, "rpcid": rpcid, "version": version,
                        "methodresponse": mresp, "notify": notify, "config": cname})
    ctx.exhaustive["method x params x rpcid x version x flags x config product (thorough only)"] = stride == 1

    # responses and error responses: results / Faults x rpcid x version x config
    results = PARAMS_OK + PARAMS_SCALAR + [None]
    flts = faults()
    idx = 0
    for params in results + flts:
        for rpcid in RPCIDS_VERBATIM + RPCIDS_GENERATE:
            for version in VERSIONS:
                for ci, (cname, cfg) in enumerate(cfgs):
                    idx += 1
                    if not ctx.mine(idx):
                        continue
                    if ctx.quick and (idx // ctx.nshards + ctx.seed) % 3:
                        continue
                    one(ctx, st, jr, "dumps" if idx % 3 else "dump", None, params, rpcid, version, True, None,
                        cname, cfg)
    # Fault.response() / Fault.dump() convenience paths
    import jsonrpclib
    for code, msg, data, rid in itertools.product((-32603, 7), ("m",), (None, 0, {"a": 1}), (None, 0, 5, "x")):
        for cname, cfg in cfgs:
            f = jsonrpclib.Fault(code, msg, rpcid=rid, config=cfg, data=data)
            _remember(f, (code, msg, data))
            for how in ("response", "dump"):
                try:
                    got = json.loads(f.response()) if how == "response" else gen.jn(f.dump())
                    out = ("ok", got, None)
                except Exception as ex:
                    out = ("raise", ex)
                judge(ctx, st, "Fault." + how, None, f, rid, None, True, None, cname, cfg, out)
                ctx.case(("Fault." + how, code, gen.trepr(data), gen.trepr(rid), cname))
            if rid is None:
                continue
            # the same id forced through the method's own parameter on a Fault built without one
            for how in ("response", "dump"):
                g = jsonrpclib.Fault(code, msg, config=cfg, data=data)
                _remember(g, (code, msg, data))
                try:
                    got = json.loads(g.response(rpcid=rid)) if how == "response" else gen.jn(g.dump(rpcid=rid))
                    out = ("ok", got, None)
                except Exception as ex:
                    out = ("raise", ex)
                judge(ctx, st, "Fault.%s(rpcid=)" % how, None, g, rid, None, True, None, cname, cfg, out)
                ctx.case(("Fault.%s(rpcid=)" % how, code, gen.trepr(data), gen.trepr(rid), cname))
                # ... and the SAME Fault object used again without an id (a module-level constant answering the next,
                # id-less, request): the id forced for the previous message must not stick to it
                try:
                    got = json.loads(g.response()) if how == "response" else gen.jn(g.dump())
                    out = ("ok", got, None)
                except Exception as ex:
                    out = ("raise", ex)
                ctx.count("judged:fault-reused-without-id")
                if out[0] == "ok" and isinstance(out[1], dict) and out[1].get("id") is not None:
                    ctx.violate("forced-id-sticks-to-the-fault-object",
                                {"api": "Fault." + how, "forced": rid, "config": cname}, {"second_message": out[1]})

    # ids generated by many short-lived threads, one after the other (thread identifiers are reused by the OS) and at
    # the same time: unique per call means unique across the threads of the process, too
    import threading
    for wave in range(ctx.pick(2, 12)):
        got = []

        def worker():
            for _ in range(3):
                got.append(jr.dump([1], "m", config=cfgs[0][1])["id"])
        sequential = wave % 2 == 0
        ths = [threading.Thread(target=worker, name="vf-idgen") for _ in range(120 if sequential else 16)]
        for t in ths:
            t.start()
            if sequential:
                t.join()
        for t in ths:
            t.join()
        ctx.case(("ids-from-threads", wave), nontrivial=True)
        for gid in got:
            tk = gen.trepr(gid)
            ctx.count("judged:id-generated-unique")
            if tk in st.seen:
                ctx.violate("generated-id-repeated:across-threads", {"api": "dump", "threads": "one after the other"
                                                                    if sequential else "concurrent"}, {"id": gid})
                break
            st.seen.add(tk)

    # random deep params / results
    nr = ctx.pick(15000, 300000)
    for i in range(nr):
        if i % 211 == 0:
            random.seed(7)
            ctx.count("global-random-reseeded")
        cname, cfg = rng.choice(cfgs)
        version = rng.choice(VERSIONS)
        rpcid = rng.choice(RPCIDS_VERBATIM + RPCIDS_GENERATE + [gen.rand_str(rng), gen.rand_int(rng),
                                                               gen.rand_float(rng)])
        mode = rng.random()
        if mode < 0.6:
            shape = rng.random()
            if shape < 0.45:
                params = [gen.json_value(rng, 4, 4) for _ in range(rng.randint(0, 4))]
                if rng.random() < 0.3:
                    params = tuple(params)
            elif shape < 0.9:
                params = {gen.rand_key(rng): gen.json_value(rng, 4, 4) for _ in range(rng.randint(0, 4))}
            else:
                params = gen.rand_prim(rng)
            if not gen.json_text_ok(params):
                continue
            if rng.random() < 0.2:
                # the same data in subclasses of the built-in containers (OrderedDict, defaultdict, namedtuple, ...)
                params = gen.subclassed(rng, params)
                ctx.count("params-in-container-subclasses")
            method = rng.choice(METHODS_OK + [gen.rand_str(rng) or "m"])
            one(ctx, st, jr, rng.choice(("dumps", "dump")), method, params, rpcid, version, None,
                rng.choice(FLAGS), cname, cfg)
        elif mode < 0.85:
            res = gen.json_value(rng, 5, 4, falsy_bias=0.3)
            if not gen.json_text_ok(res):
                continue
            if rng.random() < 0.2:
                res = gen.subclassed(rng, res)
                ctx.count("results-in-container-subclasses")
            one(ctx, st, jr, rng.choice(("dumps", "dump")), None, res, rpcid, version, True, None, cname, cfg)
        else:
            data = gen.json_value(rng, 3, 3, falsy_bias=0.4)
            if not gen.json_text_ok(data):
                continue
            fc, fm = rng.choice([gen.rand_int(rng), -32000, -32700]), gen.rand_str(rng)
            f = jsonrpclib.Fault(fc, fm, data=data)
            _remember(f, (fc, fm, data))
            one(ctx, st, jr, rng.choice(("dumps", "dump")), None, f, rpcid, version, True, None, cname, cfg)


def finalize(m, tier):
    c = m["counters"]
    out = []
    need = ["judged:request-2.0", "judged:request-1.0", "judged:notification-2.0", "judged:notification-1.0",
            "judged:result-response-2.0", "judged:result-response-1.0", "judged:error-response-2.0",
            "judged:error-response-1.0", "judged:id-verbatim", "judged:id-generated-unique",
            "judged:must-raise:non-string-method", "judged:must-raise:non-container-params",
            "judged:must-raise:response-without-id", "monitor:loads(dumps(x))", "judged:loads-empty"]
    for k in need:
        if c.get(k, 0) < 4:
            out.append("monitor counter %s too low (%d)" % (k, c.get(k, 0)))
    return out


def replay(ctx, case):
    import jsonrpclib
    import jsonrpclib.jsonrpc as jr
    cfgs = dict(configs())
    if "api" not in case:
        r = jr.loads("", cfgs[case["config"]])
        if r is not None:
            ctx.violate("loads-empty-not-None", case, {"returned": r})
        return
    params = case["params"]
    if isinstance(params, str) and params.startswith("obj:<Fault"):
        ctx.unsure("Fault cases are replayed by re-running the check with the recorded seed")
        return
    api = case["api"] if case["api"] in ("dump", "dumps") else "dumps"
    one(ctx, Gen(), jr, api, case["method"], params, case["rpcid"], case["version"],
        case["methodresponse"], case["notify"], case["config"], cfgs[case["config"]])
