"""
C03 - Responses echo the request id; batches answer one-to-one and in order.
"""

import json

from vf import gen, oracle, reqgen
from vf import dispatchmon as dm

LEVEL = "exploration"
SHARDS = {"quick": 8, "thorough": 16}
TIMEOUT = {"quick": 180, "thorough": 1500}
RULE = ("bodies = (a) every id value of a 21-value table (absent, null, '', 0, -1, 1.5, -0.0, strings, booleans, arrays, "
        "objects, 2^53) x entry kind {call, failing, unknown, bad-arguments, unconvertible result, invalid} singly and "
        "at each position of a batch; (b) all compositions of length <= 4 over {call, notification, invalid, failing, "
        "unknown, non-object} (1 554, enumerated; quick: seed-shifted third) and random longer ones (<= 8); (c) the "
        "member matrix slice; x server version {1.0,2.0} x dispatch {default, custom function, instance _dispatch}. "
        "distinct = distinct (configuration, body); non-trivial = the reference dispatcher aligned the output with the "
        "entries and compared ids / count / order.")
RULE += (" " + "Also: (d) structured ids nested 50-900 deep; (e) ids holding class descriptors of unwritable objects on valid and invalid entries (one-to-one clause and neighbours' ids only); (f) relay methods that hand a call / batch / notification / failing / invalid / malformed request to the dispatcher they are served by, on the same thread (outer ids judged on success and when the relay raises afterwards).")
ASSUMPTIONS = ["payloads are free of __jsonclass__ (ids are plain JSON values), except in the directed part on ids holding a class "
               "descriptor, where only the one-to-one clause and the neighbours' ids are judged",
               "an id is 'usable' when the entry is an object holding an 'id' member; otherwise null is expected"]
TECHNIQUE = "reference dispatcher aligned entry-by-entry with the real dispatcher output (runtime monitoring)"
LEVEL_TEXT = ("The real dispatcher answers every generated single request and batch; an independent ~100-line reference "
              "dispatcher says, per entry, whether a response is due and with which id; the monitor aligns both lists "
              "positionally with typed id comparison (0, false, -0.0, structured ids distinguished).")
LEVEL_NOTE = "Trusted: oracle.ref_dispatch / compare_response; gen.teq typed equality."
ASPECTS = ("id", "count")

CONFIGS = [(v, mode) for v in (2.0, 1.0) for mode in ("default", "custom", "instance-dispatch")]

ID_KINDS = ["call", "failing", "unknown", "badargs", "unconvertible", "invalid", "typeerror"]


def with_id(entry, rid):
    if not isinstance(entry, dict):
        return entry
    e = dict(entry)
    if rid == reqgen.ABSENT:
        e.pop("id", None)
    else:
        e["id"] = rid
    return e


def one(ctx, fxs, cfg, body, bclass):
    fx = fxs[cfg]
    status, obs, ref, kept = dm.apply(ctx, fx, cfg, body, ASPECTS, bclass)
    judged = status in ("judged", "malformed")
    ctx.case((cfg, body), nontrivial=judged)
    ctx.cell("v%s" % cfg[0], cfg[1], bclass)
    if judged:
        ctx.count("judged:alignment")
    if obs.raised is None and obs.wf == "empty-array-output":
        ctx.violate("count:empty-array-instead-of-empty-body:" + cfg[1],
                    {"config": list(cfg), "body": body, "bclass": bclass}, {"output": obs.output})
    if obs.raised is None and obs.wf and obs.wf.startswith("batch:response-not-an-object") and judged:
        # something that is not a response object sits in the batch reply (e.g. a nested array): not one-to-one
        ctx.violate("count:non-object-in-batch-reply:" + cfg[1], {"config": list(cfg), "body": body, "bclass": bclass},
                    {"output": obs.output[:600]})
    if obs.output == "" and isinstance(ref, tuple) and ref[0] == "batch":
        ctx.count("seen:batch-without-response")
    return obs


def run(ctx):
    rng = ctx.rng
    fxs = {cfg: dm.Fixture(dm.std_reg(cfg[1]), version=cfg[0]) for cfg in CONFIGS}
    ids = [reqgen.ABSENT] + gen.IDS
    n = 0
    # (a) ids x kinds, single and at each batch position
    for rid in ids:
        for kind in ID_KINDS:
            for cfg in CONFIGS:
                for rep in range(ctx.pick(1, 3)):
                    n += 1
                    if not ctx.mine(n):
                        continue
                    e = with_id(reqgen.entry_of(kind, rng), rid)
                    one(ctx, fxs, cfg, json.dumps(e), "id-single")
                    others = [reqgen.entry_of(rng.choice(reqgen.BATCH_KINDS), rng) for _ in range(2)]
                    for pos in range(3):
                        batch = list(others)
                        batch.insert(pos, e)
                        one(ctx, fxs, cfg, json.dumps(batch), "id-batch")
    ctx.sample({"bclass": "id-single", "body": json.dumps(with_id(reqgen.entry_of("failing", rng), 0))})
    # (b) compositions
    for ci, combo in enumerate(reqgen.compositions(4)):
        if not ctx.mine(ci):
            continue
        if ctx.quick and (ci // ctx.nshards + ctx.seed) % 3:
            continue
        for cfg in CONFIGS:
            batch = [reqgen.entry_of(k, rng) for k in combo]
            one(ctx, fxs, cfg, json.dumps(batch), "composition")
    ctx.exhaustive["batch compositions of length<=4 over 6 entry kinds (thorough only)"] = not ctx.quick
    for i in range(ctx.pick(6000, 150000)):
        cfg = rng.choice(CONFIGS)
        kinds = [rng.choice(reqgen.ALL_KINDS) for _ in range(rng.randint(5, 8))]
        batch = [with_id(reqgen.entry_of(k, rng), rng.choice(ids)) if rng.random() < 0.5 else reqgen.entry_of(k, rng)
                 for k in kinds]
        body = json.dumps(batch)
        one(ctx, fxs, cfg, body, "long-batch")
        if i == 0:
            ctx.sample({"bclass": "long-batch", "body": body})
    # batches that produce no response at all
    for i in range(ctx.pick(500, 8000)):
        cfg = rng.choice(CONFIGS)
        batch = [reqgen.entry_of("notification", rng) for _ in range(rng.randint(1, 5))]
        one(ctx, fxs, cfg, json.dumps(batch), "all-notifications")
    if ctx.shard == 0:
        deep_ids(ctx, fxs)
    if ctx.shard == 1 % ctx.nshards:
        descriptor_ids(ctx, fxs)
    if ctx.shard == 2 % ctx.nshards:
        reentrant_ids(ctx)
    # (c) matrix slice
    size = reqgen.matrix_size()
    step = ctx.pick(11, 5)
    for idx in range((ctx.seed * 7 + ctx.shard) % step, size, step * ctx.nshards):
        cfg = CONFIGS[idx % len(CONFIGS)]
        text = json.dumps(reqgen.matrix_entry(idx))
        one(ctx, fxs, cfg, text, "matrix")
        if idx % 3 == 0:
            one(ctx, fxs, cfg, "[" + text + "," + json.dumps(reqgen.entry_of("call", rng)) + "]", "matrix-batch")


def deep_ids(ctx, fxs):
    """Structured ids nested deeply (the JSON parser accepts them): echoed as they are, alone and inside a batch whose
    other entries keep their answers.  Compared as TEXT (the harness itself must not recurse that deep)."""
    for depth in (50, 300, 450, 498, 520, 700, 900):
        for opener, closer in (("[", "]"), ('{"k":', "}")):
            idtext = opener * depth + "1" + closer * depth
            for cfg in CONFIGS:
                fx = fxs[cfg]
                case = {"config": list(cfg), "bclass": "deep-id", "depth": depth, "kind": opener[0]}
                ctx.case(("deep-id", cfg, depth, opener), nontrivial=True)
                ctx.count("judged:deep-ids")
                single = '{"jsonrpc": "2.0", "method": "echo", "params": [1], "id": %s}' % idtext
                obs = dm.drive(fx, single)
                flat = (obs.output or "").replace(" ", "")
                if obs.raised is not None or idtext.replace(" ", "") not in flat:
                    ctx.violate("id:deep-structured-id-not-echoed:single", case,
                                {"raised": obs.raised, "output_head": (obs.output or "")[:200]})
                batch = '[{"jsonrpc": "2.0", "method": "echo", "params": [1], "id": 41}, %s, ' \
                        '{"jsonrpc": "2.0", "method": "echo", "params": [2], "id": 43}]' % single
                obs = dm.drive(fx, batch)
                flat = (obs.output or "").replace(" ", "")
                ok = obs.raised is None and flat.startswith("[") and '"id":41' in flat and '"id":43' in flat \
                    and idtext.replace(" ", "") in flat
                if not ok:
                    ctx.violate("count:deep-structured-id-collapses-the-batch", case,
                                {"raised": obs.raised, "output_head": (obs.output or "")[:200]})


DESCRIPTOR_IDS = [{"__jsonclass__": ["decimal.Decimal", ["7"]]}, {"__jsonclass__": ["fractions.Fraction", [1, 3]]},
                  {"__jsonclass__": ["types.SimpleNamespace", {"a": 1}]}, {"__jsonclass__": ["builtins.set", [[1, 2]]]},
                  [{"__jsonclass__": ["decimal.Decimal", ["1.5"]]}], {"k": {"__jsonclass__": ["datetime.date", [2020, 1, 2]]}},
                  {"__jsonclass__": ["builtins.bytes", [[104, 105]]]}, {"__jsonclass__": ["builtins.complex", [1, 2]]}]


def descriptor_ids(ctx, fxs):
    """An id that is (or holds) a class descriptor, with translation enabled: the translator turns it into an object that
    may not be writable as JSON.  The statement's "same JSON value ... or null when that entry had no usable id" leaves
    both answers open for THAT entry (its id: the descriptor as sent, or null); what is judged is the one-to-one clause:
    one response object per non-notification entry, in order, the neighbours keeping their own ids."""
    for did in DESCRIPTOR_IDS:
        # (valid calls, and entries that fail validation for another reason: they are owed one error each, too)
        for m in ("echo", "fail", "nosuch", 5, "", None):
            for two in (True, False):
                e = {"method": m, "params": [1], "id": did}
                if m is None:
                    del e["method"]
                if two:
                    e["jsonrpc"] = "2.0"
                n1 = {"jsonrpc": "2.0", "method": "echo", "params": [1], "id": 41}
                n2 = {"method": "echo", "params": [2], "id": "n2"}
                for cfg in CONFIGS:
                    if cfg[1] != "default":
                        continue
                    fx = fxs[cfg]
                    for label, batch, pos in (("single", e, None), ("first", [e, n1, n2], 0), ("middle", [n1, e, n2], 1),
                                              ("last", [n1, n2, e], 2)):
                        body = json.dumps(batch)
                        case = {"config": list(cfg), "bclass": "descriptor-id", "body": body, "position": label}
                        ctx.case(("descriptor-id", cfg, body), nontrivial=True)
                        ctx.count("judged:descriptor-ids")
                        obs = dm.drive(fx, body)
                        if obs.raised is not None:
                            continue  # C02's concern
                        val = obs.parsed
                        if pos is None:
                            objs = [val] if isinstance(val, dict) else None
                        else:
                            objs = val if isinstance(val, list) else None
                        want = 1 if pos is None else 3
                        if objs is None or len(objs) != want or not all(isinstance(o, dict) for o in objs):
                            ctx.violate("count:id-holding-a-class-descriptor-collapses-the-%s"
                                        % ("reply" if pos is None else "batch"), case, {"output": (obs.output or "")[:400]})
                            continue
                        own = objs[0] if pos is None else objs[pos]
                        if own.get("id") is not None and not gen.teq(own.get("id"), did):
                            ctx.violate("id:class-descriptor-id-answered-with-another-id", case, {"response": own})
                        if pos is not None:
                            rest = [o.get("id") for i, o in enumerate(objs) if i != pos]
                            if not gen.teq(rest, [41, "n2"]):
                                ctx.violate("id:neighbours-of-a-class-descriptor-id-lose-their-ids", case,
                                            {"ids": [o.get("id") for o in objs]})


def reentrant_ids(ctx):
    """Registered callables that use the dispatcher they are served by (a relay / fan-out method handing a request text
    to the same dispatcher on the same thread): the outer response still carries the outer id - on success, when the
    relaying method raises afterwards, and whatever the inner request was (call, batch, notification, failing call)."""
    for v in (2.0, 1.0):
        box = {}

        def relay(text):
            out = box["fx"].dispatcher._marshaled_dispatch(text)
            return json.loads(out) if out else None

        def relayfail(text):
            box["fx"].dispatcher._marshaled_dispatch(text)
            raise ValueError("after the inner request")
        fx = dm.Fixture(dm.std_reg("default"), version=v, extra={"relay": relay, "relayfail": relayfail})
        box["fx"] = fx
        inner = {"call": {"jsonrpc": "2.0", "id": "inner", "method": "echo", "params": [1]},
                 "batch": [{"jsonrpc": "2.0", "id": 71, "method": "echo"}, {"jsonrpc": "2.0", "id": 72, "method": "fail"}],
                 "notification": {"jsonrpc": "2.0", "method": "echo", "params": [2]},
                 "failing": {"id": 9, "method": "fail"}, "invalid": {"jsonrpc": "2.0", "id": 13, "method": 5},
                 "malformed": None}
        outer_ids = ["a", 5, 6.5, [1], {"k": 0}, 0, False, "", None]
        n = 0
        for kind, ibody in inner.items():
            itext = '{"jsonrpc": "2.0", "method"' if ibody is None else json.dumps(ibody)
            for method in ("relay", "relayfail"):
                for two in (True, False):
                    entries = []
                    for oid in outer_ids[:7]:
                        e = {"method": method, "params": [itext], "id": oid}
                        if two:
                            e["jsonrpc"] = "2.0"
                        entries.append(e)
                    plain = {"jsonrpc": "2.0", "id": "plain", "method": "echo", "params": [0]}
                    for label, body, want in [("single-%d" % i, e, [e["id"]]) for i, e in enumerate(entries)] + \
                            [("batch", [plain] + entries + [dict(plain, id="last")],
                              ["plain"] + [e["id"] for e in entries] + ["last"])]:
                        n += 1
                        case = {"config": [v, "default"], "bclass": "re-entrant-dispatch", "inner": kind, "method": method,
                                "body": json.dumps(body)}
                        ctx.case(("re-entrant", v, kind, method, two, label), nontrivial=True)
                        ctx.count("judged:re-entrant-dispatch")
                        obs = dm.drive(fx, json.dumps(body))
                        if obs.raised is not None:
                            continue  # C02's concern
                        val = obs.parsed
                        objs = [val] if isinstance(val, dict) else val if isinstance(val, list) else []
                        got = [o.get("id") if isinstance(o, dict) else "<not an object>" for o in objs]
                        if len(got) != len(want):
                            ctx.violate("count:re-entrant-dispatch-changes-the-number-of-responses", case,
                                        {"ids": got, "expected": want})
                        elif not gen.teq(got, want):
                            ctx.violate("id:outer-response-carries-another-id-after-a-re-entrant-dispatch:%s" % kind, case,
                                        {"ids": got, "expected": want})


def finalize(m, tier):
    c = m["counters"]
    out = []
    for k, lo in (("judged:alignment", 3000), ("entry:ok", 500), ("entry:raises", 100), ("entry:unknown-method", 100),
                  ("entry:unconvertible-result", 20), ("entry:invalid:method", 50), ("seen:batch-without-response", 20),
                  ("entry:notification:ok", 100)):
        if c.get(k, 0) < lo:
            out.append("monitor counter %s too low (%d < %d)" % (k, c.get(k, 0), lo))
    return out


def replay(ctx, case):
    cfg = tuple(case["config"])
    if case.get("body") is None:
        ctx.unsure("body too large to store")
        return
    fxs = {cfg: dm.Fixture(dm.std_reg(cfg[1]), version=cfg[0])}
    one(ctx, fxs, cfg, case["body"], case.get("bclass", "replay"))
