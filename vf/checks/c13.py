"""
C13 - Replies depend only on the request: stateless per-request version adaptation;
serving never writes the server's Config nor the shared default; Config.copy() is independent.
"""

import itertools
import json
import sys
import threading

from vf import gen, guards, inject, oracle, reqgen, servers
from vf import dispatchmon as dm

LEVEL = "exploration"
SHARDS = {"quick": 8, "thorough": 16}
TIMEOUT = {"quick": 240, "thorough": 1800}
RULE = ("histories = sequences of 10-300 requests mixing 1.0 and 2.0 calls, notifications, batches, invalid and failing "
        "requests, replayed (a) sequentially on one dispatcher, (b) from 2-8 threads on one dispatcher, (c) through "
        "Simple / Pooled HTTP servers with concurrent raw clients, all jsonrpclib modules under line-level yield "
        "injection, (d) first-use races: 3-6 requests sent from three threads to a FRESH dispatcher while one thread is "
        "parked at one source line - every line the dispatching threads were seen executing, in turn; "
        "server version {1.0,2.0}, server Config = own object or the shared DEFAULT; plus every single and "
        "pairwise mutation of a Config copy and of its original. Oracles: each reply equals, byte for byte, the reply a "
        "fresh identical server gives to that request in isolation; the version form matches the request; a class-level "
        "write trap on Config sees every attribute write (also transient ones); field snapshots before/after. "
        "distinct = distinct (configuration, replay mode, request) triples; non-trivial = the request was dispatchable "
        "or the reply was compared with the fresh-server reply.")
RULE += (" " + 'Also: requests carrying class descriptors, as params and as ids that cannot be written back (with a directed form check on them and their batch neighbours), and calls whose result holds an object of a class unknown to the Config.')
ASSUMPTIONS = [
    "replies contain no server-generated ids or times, so fresh-server replies are byte-comparable",
    "the version-form clause is judged for dispatchable requests; invalid entries are judged for independence only",
]
TECHNIQUE = "metamorphic fresh-server oracle + Config write-trap and snapshots under concurrent replay with delay injection (runtime monitoring)"
LEVEL_TEXT = ("Request histories run sequentially, concurrently on one dispatcher and through real HTTP servers; every reply "
              "is compared with the reply of a fresh identical server to the same request (history- and concurrency-"
              "independence) and with the reference form rule; a write trap on Config.__setattr__ and before/after "
              "snapshots watch the server Config and config.DEFAULT; Config.copy() mutations are enumerated pairwise.")
LEVEL_NOTE = "Trusted: the fresh-server replies (same code, isolated), oracle.ref_entry for the form rule, guards.ConfigTrap."

CFGS = [(2.0, "own"), (1.0, "own"), (2.0, "DEFAULT")]


def _hidden_class():
    class Ticket(object):
        """A class no module path leads to (defined in a function) and that no Config knows."""
        def __init__(self, n=0):
            self.n = n
    return Ticket


HIDDEN = _hidden_class()


def make_fixture(cfg):
    import jsonrpclib.config as cm
    v, which = cfg
    # a method whose result holds an object of a class the server's Config has never heard of: answering must not
    # teach it to the Config (serving leaves no trace)
    extra = {"ticket": lambda n=0: {"ticket": HIDDEN(n), "n": n}}
    if which == "DEFAULT":
        return dm.Fixture(dm.std_reg("default"), version=cm.DEFAULT.version, config=cm.DEFAULT, extra=extra)
    return dm.Fixture(dm.std_reg("default"), version=v, extra=extra)


BEANS = [{"__jsonclass__": ["decimal.Decimal", ["1.5"]]}, {"__jsonclass__": ["fractions.Fraction", [1, 3]]},
         {"__jsonclass__": ["types.SimpleNamespace", {"a": 1}], "b": 2}, {"__jsonclass__": ["Klass", []]},
         {"__jsonclass__": ["collections.OrderedDict", []]}, {"__jsonclass__": ["no.such.Klass", []]},
         {"__jsonclass__": ["Decimal", ["2"]]}, {"__jsonclass__": ["bad-name", []]}]


def gen_body(rng):
    r = rng.random()
    if r < 0.1:
        # requests carrying class descriptors (resolvable, bare, missing, invalid): translation must leave no trace
        bean = rng.choice(BEANS)
        e = {"method": rng.choice(["echo", "const0", "kw"]),
             "id": rng.choice([1, "b"]) if rng.random() < 0.75 else rng.choice(BEANS[:3]),
             "params": [bean] if rng.random() < 0.7 else {"v": [bean]}}
        if rng.random() < 0.7:
            e["jsonrpc"] = "2.0"
        return json.dumps(e if rng.random() < 0.7 else [e, reqgen.entry_of("call", rng)])
    if r < 0.14:
        e = {"method": "ticket", "id": rng.choice([3, "t"]), "params": [rng.randrange(5)]}
        if rng.random() < 0.5:
            e["jsonrpc"] = "2.0"
        return json.dumps(e if rng.random() < 0.7 else [reqgen.entry_of("call", rng), e])
    if r < 0.55:
        kind = rng.choice(["call", "call", "notification", "failing", "unknown", "badargs", "invalid", "unconvertible"])
        return json.dumps(reqgen.entry_of(kind, rng))
    if r < 0.85:
        kinds = [rng.choice(reqgen.ALL_KINDS) for _ in range(rng.randint(1, 5))]
        return json.dumps([reqgen.entry_of(k, rng) for k in kinds])
    if r < 0.93:
        return json.dumps(reqgen.matrix_entry(rng.randrange(reqgen.matrix_size())))
    return rng.choice(['{"jsonrpc": "2.0", "method"', "[]", "", "[1]", '{"method": "echo", "id": 5}',
                       '{"jsonrpc": "2.0", "method": "echo", "id": 5}'])


class Fresh(object):
    """Reply of a fresh identical server to one request in isolation (cached)."""

    def __init__(self):
        self.cache = {}

    def reply(self, cfg, body):
        key = (cfg, body)
        if key not in self.cache:
            fx = make_fixture(cfg)
            try:
                self.cache[key] = ("ok", fx.dispatch(body))
            except BaseException as ex:  # noqa
                self.cache[key] = ("raise", type(ex).__name__)
        return self.cache[key]


def judge_reply(ctx, fresh, cfg, mode, body, out, fx):
    """out = ('ok', text) | ('raise', name)"""
    exp = fresh.reply(cfg, body)
    case = {"config": list(cfg), "replay": mode, "body": body}
    ctx.count("judged:fresh-server-comparison")
    ctx.count("replay:" + mode)
    dispatchable = False
    if out != exp:
        ctx.violate("reply-differs-from-fresh-server:" + mode.split("-")[0], case,
                    {"reply": out, "fresh_reply": exp})
    if out[0] == "ok" and "__jsonclass__" not in body:
        parsed = oracle.parse_body(body)
        if parsed[0] == "ok":
            ref = oracle.ref_dispatch(parsed[1], fx.reg, fx.version)
            wf, val = oracle.wellformed_output(out[1])
            exps = oracle.expected_responses(ref)
            if wf is None and val is not None:
                vals = val if isinstance(val, list) else [val]
                if len(vals) == len(exps):
                    for obj, e in zip(vals, exps):
                        if e.exp.form is None:
                            continue
                        dispatchable = True
                        ctx.count("judged:version-form")
                        if oracle.response_form(obj) != e.exp.form:
                            ctx.violate("form:%s-for-%s:%s" % (oracle.response_form(obj), e.exp.form, e.cls), case,
                                        {"response": obj})
    ctx.case((cfg, mode.split("-")[0], body), nontrivial=True)
    return dispatchable


DESCRIPTOR_IDS = [{"__jsonclass__": ["decimal.Decimal", ["7"]]}, {"__jsonclass__": ["fractions.Fraction", [1, 3]]},
                  {"__jsonclass__": ["types.SimpleNamespace", {"a": 1}]}, {"__jsonclass__": ["builtins.set", [[1, 2]]]},
                  [{"__jsonclass__": ["decimal.Decimal", ["1.5"]]}]]


def descriptor_id_forms(ctx):
    """Calls whose id holds a class descriptor (an object the server may be unable to write back): whatever is answered,
    every response object is in the form its request calls for - also the neighbours in the same batch."""
    for cfg in CFGS:
        fx = make_fixture(cfg)
        sform = "2.0" if fx.version >= 2 else "1.0"
        for did in DESCRIPTOR_IDS:
            for m in ("echo", "fail", "nosuch", "two"):
                for two in (True, False):
                    e = {"method": m, "params": [1], "id": did}
                    if two:
                        e["jsonrpc"] = "2.0"
                    form = sform if two else "1.0"
                    n1 = {"method": "echo", "params": [1], "id": 41}
                    n2 = {"jsonrpc": "2.0", "method": "echo", "params": [2], "id": 42}
                    for label, batch, forms in (("single", e, [form]), ("with-1.0-call", [n1, e], ["1.0", form]),
                                                ("with-2.0-call", [e, n2], [form, sform])):
                        body = json.dumps(batch)
                        case = {"config": list(cfg), "replay": "descriptor-id", "body": body}
                        ctx.case((cfg, "descriptor-id", body), nontrivial=True)
                        ctx.count("judged:descriptor-id-forms")
                        try:
                            out = fx.dispatch(body)
                            val = json.loads(out)
                        except BaseException as ex:  # noqa
                            ctx.violate("descriptor-id:raised-%s" % type(ex).__name__, case, {"raised": ex})
                            continue
                        objs = [val] if isinstance(val, dict) else val if isinstance(val, list) else []
                        objs = [o for o in objs if isinstance(o, dict)]
                        if len(objs) == len(forms):
                            pairs = list(zip(objs, forms))
                        else:
                            # fewer objects than calls (C03's concern): every request of these bodies with the same marker
                            # calls for the same form, so a single object can still be judged when all forms agree
                            pairs = [(o, forms[0]) for o in objs] if len(set(forms)) == 1 else []
                        for obj, f in pairs:
                            if oracle.response_form(obj) != f:
                                ctx.violate("form:%s-for-%s:call-whose-id-holds-a-class-descriptor"
                                            % (oracle.response_form(obj), f), case, {"response": obj, "position": label})


def check_config(ctx, trap, fx, cfg, before, mode):
    import jsonrpclib.config as cm
    writes = trap.take()
    ctx.count("monitor:config-trap-polls")
    for label, name, value, thread in writes:
        ctx.violate("config-attribute-written:%s.%s" % (label, name), {"config": list(cfg), "replay": mode},
                    {"value": value, "thread": thread, "all_writes": writes[:10]})
    after = (guards.config_snapshot(fx.config), guards.config_snapshot(cm.DEFAULT))
    ctx.count("monitor:config-snapshots")
    for which, a, b in (("server", before[0], after[0]), ("DEFAULT", before[1], after[1])):
        diff = guards.snapshot_diff(a, b)
        if diff:
            ctx.violate("config-changed-by-serving:%s:%s" % (which, ",".join(diff)), {"config": list(cfg), "replay": mode},
                        {"before": {k: a[k] for k in diff}, "after": {k: b[k] for k in diff}})


def run_history(ctx, rng, trap, fresh, cfg, mode, bodies):
    import jsonrpclib.config as cm
    fx = make_fixture(cfg)
    trap.watch(fx.config, "server")
    trap.watch(cm.DEFAULT, "DEFAULT")
    trap.take()
    before = (guards.config_snapshot(fx.config), guards.config_snapshot(cm.DEFAULT))
    ctx.cell("v%s" % cfg[0], cfg[1], mode)
    if mode == "sequential":
        for b in bodies:
            try:
                out = ("ok", fx.dispatch(b))
            except BaseException as ex:  # noqa
                out = ("raise", type(ex).__name__)
            judge_reply(ctx, fresh, cfg, mode, b, out, fx)
    elif mode.startswith("threads"):
        nthreads = int(mode.split("-")[1])
        results = []
        lock = threading.Lock()

        def worker(chunk):
            for b in chunk:
                try:
                    out = ("ok", fx.dispatch(b))
                except BaseException as ex:  # noqa
                    out = ("raise", type(ex).__name__)
                with lock:
                    results.append((b, out))
        ths = [threading.Thread(target=worker, args=(bodies[i::nthreads],), name="vf-client%d" % i)
               for i in range(nthreads)]
        for t in ths:
            t.daemon = True
            t.start()
        for t in ths:
            t.join(120)
        if any(t.is_alive() for t in ths):
            ctx.unsure("dispatcher threads did not finish within 120 s")
        for b, out in results:
            judge_reply(ctx, fresh, cfg, mode, b, out, fx)
    else:
        kind = mode.split("-")[1]
        nclients = 4
        results = []
        lock = threading.Lock()
        with servers.running(kind, "tcp", fx) as srv:
            def client(chunk):
                rc = servers.RawClient(srv)
                for b in chunk:
                    try:
                        b.encode("utf-8")
                    except UnicodeEncodeError:
                        continue
                    status, headers, payload = rc.post(b)
                    with lock:
                        results.append((b, status, payload))
            ths = [threading.Thread(target=client, args=(bodies[i::nclients],), name="vf-client%d" % i)
                   for i in range(nclients)]
            for t in ths:
                t.daemon = True
                t.start()
            for t in ths:
                t.join(120)
        for b, status, payload in results:
            if status != 200:
                exp = fresh.reply(cfg, b)
                if exp[0] == "ok":
                    ctx.violate("http-status-%s-where-fresh-server-replies" % status,
                                {"config": list(cfg), "replay": mode, "body": b}, {"payload": payload[:200]})
                continue
            judge_reply(ctx, fresh, cfg, mode, b, ("ok", payload.decode("utf-8", "replace")), fx)
    check_config(ctx, trap, fx, cfg, before, mode)
    trap.unwatch(fx.config)


# ---------------------------------------------------------------------------
# Config.copy()

def mutations():
    def set_attr(name, value):
        return ("set %s" % name, lambda c: setattr(c, name, value))
    out = [set_attr("version", 1.0), set_attr("use_jsonclass", False), set_attr("content_type", "application/json"),
           set_attr("user_agent", "other"), set_attr("serialize_method", "_ser"), set_attr("ignore_attribute", "_ign"),
           ("classes[k]=v", lambda c: c.classes.__setitem__("Added", dict)),
           ("del classes[k]", lambda c: c.classes.pop("Base", None)),
           ("classes[k] replaced", lambda c: c.classes.__setitem__("Base", list)),
           ("classes.clear", lambda c: c.classes.clear()),
           # the documented way of registering a local class
           ("classes.add(cls)", lambda c: c.classes.add(frozenset)),
           ("classes.add(cls, name)", lambda c: c.classes.add(set, "Base")),
           ("handlers[k]=v", lambda c: c.serialize_handlers.__setitem__(set, repr)),
           ("del handlers[k]", lambda c: c.serialize_handlers.pop(tuple, None)),
           ("handlers.clear", lambda c: c.serialize_handlers.clear())]
    return out


def copy_independence(ctx):
    import jsonrpclib.config as cm
    muts = mutations()
    combos = [(m,) for m in muts] + list(itertools.combinations(muts, 2))
    for target in ("copy", "original"):
        for combo in combos:
            # every field differs from its default, so that a copy which silently falls back to a default shows
            orig = cm.Config(version=1.0, content_type="application/json", user_agent="ua", use_jsonclass=False,
                             serialize_method="_ser", ignore_attribute="_ign", serialize_handlers={tuple: str})
            orig.classes.add(dict, "Base")
            orig.classes.add(list, "Other")
            cp = orig.copy()
            snap_o, snap_c = guards.config_snapshot(orig), guards.config_snapshot(cp)
            # the copy starts equal to the original, field by field
            for f in guards.CONFIG_FIELDS + ("classes", "serialize_handlers"):
                if snap_o[f] != snap_c[f]:
                    ctx.violate("copy-differs-from-original:" + f, {"site": "Config.copy", "field": f}, {})
            if snap_o["classes_id"] == snap_c["classes_id"] or snap_o["handlers_id"] == snap_c["handlers_id"]:
                ctx.violate("copy-shares-a-table-with-original", {"site": "Config.copy"}, {})
            victim, other, other_snap = (cp, orig, snap_o) if target == "copy" else (orig, cp, snap_c)
            try:
                for name, fn in combo:
                    fn(victim)
            except Exception as ex:
                ctx.violate("mutating-the-%s-raised-%s" % (target, type(ex).__name__),
                            {"site": "Config.copy", "mutated": target, "mutations": [n for n, _ in combo]},
                            {"raised": ex})
                continue
            ctx.case(("copy", target, tuple(n for n, _ in combo)))
            ctx.count("judged:copy-independence")
            diff = guards.snapshot_diff(other_snap, guards.config_snapshot(other))
            if diff:
                ctx.violate("copy-not-independent:%s-mutation-visible:%s" % (target, ",".join(diff)),
                            {"site": "Config.copy", "mutated": target, "mutations": [n for n, _ in combo]}, {})
    # two Configs built independently (and the shared DEFAULT) share nothing either
    for name, fn in muts:
        a, b = cm.Config(), cm.Config()
        sb, sd = guards.config_snapshot(b), guards.config_snapshot(cm.DEFAULT)
        fn(a)
        a.classes.add(dict, "OnlyOnA")
        a.serialize_handlers[frozenset] = repr
        ctx.case(("fresh-configs", name))
        ctx.count("judged:fresh-config-independence")
        for label, before, obj in (("other-Config", sb, b), ("DEFAULT", sd, cm.DEFAULT)):
            diff = guards.snapshot_diff(before, guards.config_snapshot(obj))
            if diff:
                ctx.violate("independently-built-Configs-share-state:%s:%s" % (label, ",".join(diff)),
                            {"site": "Config.copy", "mutation": name}, {})
    # a Config SUBCLASS of the application whose version lives outside the instance (a property over shared settings):
    # what copy() returns is still something the server can set to 1.0 for one request without touching its own Config
    settings = {"version": 2.0}

    class SettingsConfig(cm.Config):
        @property
        def version(self):
            return settings["version"]

        @version.setter
        def version(self, value):
            settings["version"] = value
    sub = SettingsConfig(version=2.0)
    cp = sub.copy()
    cp.version = 1.0
    ctx.case(("copy", "subclass-with-a-shared-version-property"))
    ctx.count("judged:copy-independence")
    if sub.version != 2.0:
        ctx.violate("copy-not-independent:copy-mutation-visible:version:Config-subclass-with-a-property", {"site": "Config.copy"},
                    {"original_version_now": sub.version})
    settings["version"] = 2.0
    fx = dm.Fixture(dm.std_reg("default"), version=2.0, config=sub)
    fx.dispatch('{"method": "echo", "params": [1], "id": 1}')
    out = fx.dispatch('{"jsonrpc": "2.0", "method": "echo", "params": [1], "id": 2}')
    ctx.count("judged:version-form")
    if sub.version != 2.0 or '"jsonrpc"' not in (out or ""):
        ctx.violate("form:1.0-for-2.0:after-a-1.0-request:Config-subclass-with-a-property", {"site": "dispatcher"},
                    {"server_version_now": sub.version, "reply": out})
    ctx.exhaustive["single and pairwise Config mutations on copy and on original"] = True
    ctx.cell("Config.copy")


def run(ctx):
    import jsonrpclib.SimpleJSONRPCServer as S
    import jsonrpclib.jsonrpc as J
    import jsonrpclib.config as C
    import jsonrpclib.jsonclass as JC
    rng = ctx.rng
    if ctx.shard == 0:
        copy_independence(ctx)
    if ctx.shard == 1 % ctx.nshards:
        descriptor_id_forms(ctx)
    trap = guards.ConfigTrap()
    trap.install()
    inj = inject.Injector([S, J, C, JC])
    inj.install()
    sys.setswitchinterval(1e-5)
    fresh = Fresh()
    modes = ["sequential", "threads-2", "threads-4", "threads-8", "http-simple", "http-pooled"]
    nseq = ctx.pick(9, 500)
    for i in range(nseq):
        if ctx.time_left() < 10:
            ctx.unsure("time budget exhausted after %d histories" % i)
            break
        j = i + ctx.shard * nseq
        cfg = CFGS[j % len(CFGS)]
        mode = modes[(j // len(CFGS)) % len(modes)]
        n = rng.choice([10, 30, 80, 150, 300]) if not mode.startswith("http") else rng.choice([10, 30, 60])
        bodies = [gen_body(rng) for _ in range(n)]
        inj.configure("none")
        for b in bodies:
            fresh.reply(cfg, b)   # isolation replies are computed without perturbation
        inj.configure("yield", seed=rng.randrange(1 << 30), p=rng.choice([0.0, 0.02, 0.1]))
        run_history(ctx, rng, trap, fresh, cfg, mode, bodies)
        inj.configure("none")
        ctx.count("histories")
        if i == 0:
            ctx.sample({"config": list(cfg), "replay": mode, "first_requests": bodies[:4]})
    # first-use races: a FRESH dispatcher receives its first requests from three threads at once while one of them is
    # parked at one source line (every line the dispatching threads were seen executing above, in turn)
    # (functions are learned, their statement lines enumerated statically: every shard partitions the same list)
    quals = set(q for (q, l, r) in inj.seen if r == "client")
    pts = sorted(set((q, l) for mod in (S, J, C, JC) for (q, l) in inject.statement_lines(mod) if q in quals))
    ctx.counters["first-use-stall-points-enumerated"] = len(pts)
    mine = [pt for i, pt in enumerate(pts) if ctx.mine(i)]
    rng.shuffle(mine)
    for q, l in mine:
        if ctx.time_left() < 10:
            ctx.unsure("time budget exhausted in the first-use sweep")
            break
        for rep in range(ctx.pick(3, 8)):
            cfg = CFGS[rep % len(CFGS)] if rep > 1 else (2.0, "own")
            # half of them plain 1.0-form calls (whose answers need the version adaptation), the rest anything
            bodies = [gen_body(rng) if rng.random() < 0.5 else
                      json.dumps({"method": rng.choice(["echo", "const0", "fail", "nosuch", "two"]),
                                  "params": [rng.randrange(100)], "id": rng.randrange(1, 1000)})
                      for _ in range(rng.choice([3, 6]))]
            if rep == 1:
                # methods that answer with one shared Fault object (an application's error constant), asked for in
                # 1.0 and in 2.0 form at the same time: the object belongs to the application, each reply to its request
                bodies = []
                for i in range(6):
                    e = {"method": rng.choice(["notready", "notready2"]), "params": [], "id": rng.randrange(1, 1000)}
                    if i % 2:
                        e["jsonrpc"] = "2.0"
                    bodies.append(json.dumps(e))
                ctx.count("first-use-histories-on-shared-fault-objects")
            inj.configure("none")
            for b in bodies:
                fresh.reply(cfg, b)
            plan = {"qualname": q, "line": l, "role": "client", "k": 1 if rep == 0 else rng.choice([1, 2]),
                    "budget": rng.choice([40, 150, 400]), "cap": 0.03}
            hits0 = inj.hits
            inj.configure("stall", seed=rng.randrange(1 << 30), plan=plan)
            run_history(ctx, rng, trap, fresh, cfg, "threads-3", bodies)
            inj.configure("none")
            ctx.count("first-use-histories")
            if inj.hits > hits0:
                ctx.count("first-use-stall-points-hit")
    ctx.counters["monitored-lines-executed"] = inj.snapshot()["lines"]
    inj.uninstall()
    trap.uninstall()


def finalize(m, tier):
    c = m["counters"]
    out = []
    for k, lo in (("judged:fresh-server-comparison", 2000), ("judged:version-form", 1000), ("histories", 40),
                  ("monitor:config-snapshots", 40), ("judged:copy-independence", 100), ("replay:sequential", 100),
                  ("replay:threads-4", 100), ("replay:http-pooled", 50), ("replay:http-simple", 50),
                  ("first-use-stall-points-hit", 150)):
        if c.get(k, 0) < lo:
            out.append("monitor counter %s too low (%d < %d)" % (k, c.get(k, 0), lo))
    return out


def replay(ctx, case):
    if case.get("site") == "Config.copy":
        copy_independence(ctx)
        return
    if "body" not in case:
        ctx.unsure("Config write / snapshot witnesses cover a whole history: re-run with the recorded seed")
        return
    cfg = tuple(case["config"])
    trap = guards.ConfigTrap()
    trap.install()
    fresh = Fresh()
    # a history in which the request is preceded and followed by requests of the other version
    pre = ['{"method": "echo", "params": [1], "id": 1}', '{"jsonrpc": "2.0", "method": "echo", "params": [1], "id": 2}']
    for mode in ("sequential", "threads-4"):
        run_history(ctx, ctx.rng, trap, fresh, cfg, mode, pre + [case["body"]] + pre + [case["body"]] * 3)
    trap.uninstall()
