"""
C02 - Server answers every request body with a well-formed reply and never raises.
"""

import json

from vf import gen, oracle, reqgen
from vf import dispatchmon as dm

LEVEL = "exploration"
SHARDS = {"quick": 8, "thorough": 16}
TIMEOUT = {"quick": 180, "thorough": 1500}
RULE = ("bodies = member-presence x type matrix (jsonrpc/id/method/params each absent or one of 15 values: 65 536 objects; "
        "thorough: complete per server version, quick: seed-shifted 1/8 slice), batches of generated entries, every "
        "prefix and single-character delete/replace/insert of a 12-request corpus, random Unicode text, deep nesting "
        "to 100 000 levels, __jsonclass__ payloads (side-effect-free / unresolvable / invalid descriptors); x server "
        "version {1.0,2.0} x dispatch {default registry+instance, custom function, instance _dispatch} x translation "
        "{on,off}; a sample replayed through a real HTTP server (do_POST). distinct = distinct (configuration, body) "
        "pairs; non-trivial = the body is inside the property's domain (NaN/Infinity literals excluded) and the "
        "well-formedness oracle ran on the output.")
RULE += (" " + 'Also: ids that hold descriptors of objects which cannot be written back (Decimal, set, bytes, complex...) on valid and on invalid entries, alone and in batches.')
ASSUMPTIONS = [
    "bodies using NaN/Infinity/-Infinity are executed (never-raises still recorded) but not counted as judged",
    "registered callables return JSON-representable values or raise ordinary exceptions",
]
TECHNIQUE = "well-formedness oracle + exception recorder around the real marshaled dispatch and do_POST (runtime monitoring)"
LEVEL_TEXT = ("Every generated body goes through the real _marshaled_dispatch (and a sample through a real HTTP server); a "
              "recorder catches anything that escapes and an independent validator checks the reply object(s) against the "
              "1.0/2.0 form rules. Thorough enumerates the 65 536-object member matrix completely per server version.")
LEVEL_NOTE = "Trusted: oracle.wellformed_response (40 lines), stdlib json as the strict parser."

CONFIGS = [(v, mode, jc) for v in (2.0, 1.0) for mode in ("default", "custom", "instance-dispatch")
           for jc in (True, False)]


def fixtures():
    out = {}
    for v, mode, jc in CONFIGS:
        out[(v, mode, jc)] = dm.Fixture(dm.std_reg(mode, use_jsonclass=jc), version=v, use_jsonclass=jc)
    return out


def check_body(ctx, fx, cfg, text, bclass):
    obs = dm.drive(fx, text)
    parsed = oracle.parse_body(text)
    inside = parsed[0] != "outside" or bclass == "deep"
    ctx.case((cfg, text), nontrivial=inside)
    ctx.count("monitor:dispatch")
    ctx.cell("v%s" % cfg[0], cfg[1], "jc" if cfg[2] else "nojc", bclass)
    case = {"config": list(cfg), "body": text if len(text) < 2000 else None, "bclass": bclass,
            "body_len": len(text), "body_head": text[:80]}
    if obs.raised is not None:
        ctx.violate("raise:%s:%s" % (type(obs.raised).__name__, bclass), case, {"raised": obs.raised})
        return obs
    ctx.count("monitor:wellformed-judged")
    if obs.output == "":
        ctx.count("seen:empty-output")
    elif isinstance(obs.parsed, list):
        ctx.count("seen:array-output")
    elif isinstance(obs.parsed, dict):
        ctx.count("seen:error-object" if obs.parsed.get("error") is not None else "seen:result-object")
    if obs.wf and inside:
        why = obs.wf
        if why == "output-not-json" and parsed[0] == "ok" and oracle.nonfinite_id(parsed[1]):
            why = "output-not-json:id-beyond-the-double-range-echoed-as-Infinity"
        ctx.violate("wellformed:%s:%s" % (why, cfg[1]), case, {"output": obs.output})
    return obs


def run(ctx):
    rng = ctx.rng
    # termination under a progress watchdog first (one shard), checkpointed: an implementation that hangs would
    # otherwise take the whole shard - and these observations - with it
    if ctx.shard == 1 % ctx.nshards:
        termination(ctx, rng)
        ctx.checkpoint()
    fxs = fixtures()
    keys = list(fxs)
    # 1. member matrix
    size = reqgen.matrix_size()
    stride = 1 if not ctx.quick else 8
    for v in (2.0, 1.0):
        fx_default = fxs[(v, "default", True)]
        for idx in range(size):
            if not ctx.mine(idx):
                continue
            if stride > 1 and (idx // ctx.nshards + ctx.seed) % stride:
                continue
            obj = reqgen.matrix_entry(idx)
            text = json.dumps(obj)
            check_body(ctx, fx_default, (v, "default", True), text, "matrix")
            if idx % 7 == 0:
                other = keys[(idx // 7) % len(keys)]
                check_body(ctx, fxs[other], other, text, "matrix")
            if idx % 5 == 0:
                # the same object inside a batch of two
                check_body(ctx, fx_default, (v, "default", True), "[" + text + "," + text + "]", "matrix-batch")
    ctx.exhaustive["65536-object member matrix per server version, default dispatch (thorough only)"] = stride == 1
    ctx.sample({"bclass": "matrix", "body": json.dumps(reqgen.matrix_entry(0x1234))})

    # 2. damage operators on the corpus
    n = 0
    for ti, text in enumerate(reqgen.CORPUS):
        for d in reqgen.damaged(text):
            n += 1
            if not ctx.mine(n):
                continue
            if ctx.quick and (n // ctx.nshards + ctx.seed) % 3:
                continue
            cfg = keys[n % len(keys)]
            check_body(ctx, fxs[cfg], cfg, d, "damaged")
    ctx.sample({"bclass": "damaged", "body": next(iter(reqgen.damaged(reqgen.CORPUS[0][:30] + "...")))})

    # 3. batches and singles by composition
    for i in range(ctx.pick(6000, 120000)):
        cfg = rng.choice(keys)
        kinds = [rng.choice(reqgen.ALL_KINDS) for _ in range(rng.randint(1, 6))]
        entries = [reqgen.entry_of(k, rng) for k in kinds]
        body = json.dumps(entries if (len(entries) > 1 or rng.random() < 0.3) else entries[0])
        check_body(ctx, fxs[cfg], cfg, body, "batch")
        if i == 0:
            ctx.sample({"bclass": "batch", "body": body})

    # 4. random text and top-level scalars / containers
    tops = ["", " ", "null", "true", "false", "0", "1", "-1.5", '""', '"x"', "[]", "{}", "[[]]", "[{}]", "[null]",
            "[1,2]", '{"a":1}', "﻿{}", "\x00", "nul", "NaN", "[Infinity]", '{"id":-Infinity}', "01", "1e999",
            '{"jsonrpc":"2.0","method":"echo","id":1}garbage', "\ud800", '"\\ud800"',
            '{"jsonrpc":"2.0","method":"echo","id":1,"id":2}', "1" * 5000, '"' + "é" * 3000 + '"']
    for i, t in enumerate(tops):
        for cfg in keys:
            if ctx.mine(i):
                check_body(ctx, fxs[cfg], cfg, t, "top")
    for i in range(ctx.pick(10000, 200000)):
        cfg = rng.choice(keys)
        check_body(ctx, fxs[cfg], cfg, reqgen.random_text(rng), "text")
    # standard numerals at and beyond the limits of a double, as ids and as arguments
    numerals = ["1e999", "-1e999", "1E400", "123456789e999", "1.7976931348623157e308", "1.8e308", "-1.8e308",
                "5e-324", "1e-999", "-0.0", "0e0", "1" + "0" * 400, "-" + "9" * 310 + ".5"]
    n = 0
    for num in numerals:
        for tmpl in ('{"jsonrpc": "2.0", "method": "echo", "params": [1], "id": %s}',
                     '{"method": "echo", "params": [1], "id": %s}',
                     '{"jsonrpc": "2.0", "method": "nosuch", "id": %s}',
                     '{"jsonrpc": "2.0", "id": %s}',
                     '{"jsonrpc": "2.0", "method": "echo", "params": [1], "id": [%s]}',
                     '{"method": "nosuch", "id": {"a": [0, %s]}}',
                     '[{"jsonrpc": "2.0", "method": "echo", "id": 1}, {"jsonrpc": "2.0", "method": "fail", "id": %s}]',
                     '{"jsonrpc": "2.0", "method": "echo", "params": [%s], "id": 7}',
                     '{"jsonrpc": "2.0", "method": "two", "params": {"a": %s, "b": 0}, "id": 7}'):
            for cfg in keys:
                n += 1
                if ctx.mine(n):
                    check_body(ctx, fxs[cfg], cfg, tmpl % num, "numerals")

    # 5. deep nesting (implementation limits must still not escape)
    depths = ctx.pick([50, 400, 990, 1100, 5000], [50, 200, 400, 600, 990, 1000, 1100, 3000, 5000, 20000, 100000])
    n = 0
    for depth in depths:
        for kind in ("list", "dict", "params", "unclosed", "id"):
            for cfg in keys:
                n += 1
                if ctx.mine(n):
                    check_body(ctx, fxs[cfg], cfg, reqgen.deep(depth, kind), "deep")

    # 6. __jsonclass__ payloads
    n = 0
    for body in reqgen.jsonclass_bodies(rng):
        for cfg in keys:
            n += 1
            if ctx.mine(n):
                check_body(ctx, fxs[cfg], cfg, body, "jsonclass")

    # 7. HTTP sample through a real server
    http_sample(ctx, rng)



def termination_bodies(rng):
    """Bodies on which an implementation may loop or backtrack for very long: long class names ending in a forbidden
    character, long dotted names, long method names and ids, very wide batches, huge number literals."""
    out = []

    def req(params=None, **kw):
        d = {"jsonrpc": "2.0", "id": 1, "method": "echo"}
        if params is not None:
            d["params"] = params
        d.update(kw)
        return json.dumps(d)
    for n in (24, 28, 32, 40, 54, 80, 200, 2000):
        for tail in ("~", "-", " ", "\n", "é", ";"):
            base = ("jsonrpclib.SimpleJSONRPCServer.SimpleJSONRPCDispatcher" * 40)[:n]
            out.append(("long-class-name", req([{"__jsonclass__": [base + tail, []]}])))
        out.append(("long-class-name", req([{"__jsonclass__": ["a" * n + "!", []]}])))
        out.append(("long-class-name", req([{"__jsonclass__": [("ab." * n)[:n] + "!", []]}])))
        out.append(("long-class-name", req([{"__jsonclass__": ["." * n + "x-", []]}])))
        out.append(("long-class-name", req([{"__jsonclass__": ["_" * n + "/", {}]}])))
    for n in (1000, 100000):
        out.append(("long-method-name", req(method="m" * n)))
        out.append(("long-method-name", req(method=("a." * n)[:n])))
        out.append(("long-id", req(id="i" * n)))
        out.append(("wide-batch", "[" + ",".join(['{"jsonrpc":"2.0","method":"noargs"}'] * (n // 100)) + "]"))
        out.append(("long-string", req(["x" * n])))
    out.append(("huge-number", '{"jsonrpc":"2.0","id":' + "9" * 5000 + ',"method":"echo"}'))
    out.append(("huge-number", '{"jsonrpc":"2.0","id":1,"method":"echo","params":[1e' + "9" * 400 + "]}"))
    out.append(("many-keys", "{" + ",".join('"k%d":%d' % (i, i) for i in range(20000)) + "}"))
    return out


def termination(ctx, rng):
    """The dispatcher terminates: bodies run in a child interpreter under a progress watchdog."""
    from vf import subcase
    cases = termination_bodies(rng)
    for version, jc in ((2.0, True), (1.0, True), (2.0, False)):
        # normal answers take milliseconds; 10 s without an answer to ONE body is four orders of magnitude more
        statuses, hung = subcase.run_bodies([b for _, b in cases], version=version, use_jsonclass=jc, stall_s=10.0)
        for i, st in enumerate(statuses):
            ctx.case(("termination", version, jc, cases[i][0], len(cases[i][1]), cases[i][1][:80]))
            ctx.count("judged:termination")
            ctx.cell("v%s" % version, "termination", "jc" if jc else "nojc", cases[i][0])
            if st != "ok":
                ctx.violate("raise:%s:%s" % (st.split(":")[-1], cases[i][0]),
                            {"config": [version, "default", jc], "bclass": cases[i][0], "body_head": cases[i][1][:200],
                             "body_len": len(cases[i][1])}, {"status": st})
        if hung is not None and hung >= 0:
            bclass, body = cases[hung]
            ctx.violate("dispatcher-did-not-terminate:" + bclass,
                        {"config": [version, "default", jc], "bclass": bclass, "body": body if len(body) < 3000 else None,
                         "body_head": body[:200], "body_len": len(body)},
                        {"no_progress_for_s": 10, "bodies_answered_before": hung})
            break   # one witness is enough; every further configuration would cost the same wait
        elif hung is not None:
            ctx.unsure("termination child died after %d bodies" % (-1 - hung))


def http_sample(ctx, rng):
    from vf import servers
    bodies = []
    for _ in range(ctx.pick(200, 2500)):
        r = rng.random()
        if r < 0.3:
            bodies.append(json.dumps(reqgen.matrix_entry(rng.randrange(reqgen.matrix_size()))))
        elif r < 0.5:
            bodies.append(rng.choice(list(reqgen.damaged(rng.choice(reqgen.CORPUS)))))
        elif r < 0.7:
            bodies.append(reqgen.random_text(rng))
        elif r < 0.9:
            kinds = [rng.choice(reqgen.ALL_KINDS) for _ in range(rng.randint(1, 5))]
            bodies.append(json.dumps([reqgen.entry_of(k, rng) for k in kinds]))
        else:
            bodies.append(reqgen.deep(rng.choice([100, 990, 2000]), rng.choice(["list", "params", "unclosed"])))
    for kind in ("simple", "pooled"):
        for v in (2.0, 1.0):
            fx = dm.Fixture(dm.std_reg("default"), version=v)
            with servers.running(kind, "tcp", fx) as srv:
                client = servers.RawClient(srv)
                for body in bodies:
                    try:
                        body.encode("utf-8")
                    except UnicodeEncodeError:
                        continue
                    status, headers, payload = client.post(body)
                    ctx.count("monitor:http-exchange")
                    cfg = (v, "http-" + kind, True)
                    inside = oracle.parse_body(body)[0] != "outside"
                    ctx.case((cfg, body), nontrivial=inside)
                    ctx.cell("v%s" % v, "http-" + kind)
                    case = {"config": list(cfg), "body": body if len(body) < 2000 else None, "body_head": body[:80],
                            "bclass": "http"}
                    if status != 200:
                        ctx.violate("http-status-%s" % status, case, {"status": status, "payload": payload[:300]})
                        continue
                    try:
                        text = payload.decode("utf-8")
                    except UnicodeDecodeError:
                        ctx.violate("http-body-not-utf8", case, {"payload": payload[:100]})
                        continue
                    wf, _ = oracle.wellformed_output(text)
                    if wf and inside:
                        ctx.violate("wellformed:%s:http" % wf, case, {"output": text[:500]})
                client.close()


def finalize(m, tier):
    c = m["counters"]
    out = []
    for k, lo in (("monitor:dispatch", 5000), ("monitor:wellformed-judged", 5000), ("seen:empty-output", 20),
                  ("seen:array-output", 50), ("seen:error-object", 500), ("seen:result-object", 200),
                  ("monitor:http-exchange", 50), ("judged:termination", 100)):
        if c.get(k, 0) < lo:
            out.append("monitor counter %s too low (%d < %d)" % (k, c.get(k, 0), lo))
    need = len(CONFIGS)
    have = len(set(tuple(x.split("/")[:3]) for x in m["cells"] if not x.split("/")[1].startswith("http")))
    if have < need:
        out.append("only %d of %d configuration cells covered" % (have, need))
    return out


def replay(ctx, case):
    cfg = tuple(case["config"])
    body = case.get("body")
    if body is not None and case.get("bclass") in ("long-class-name", "long-method-name", "long-id", "wide-batch",
                                                    "long-string", "huge-number", "many-keys"):
        from vf import subcase
        statuses, hung = subcase.run_bodies([body], version=cfg[0], use_jsonclass=cfg[2], stall_s=10.0)
        if hung is not None and hung >= 0:
            ctx.violate("dispatcher-did-not-terminate:" + case["bclass"], case, {"no_progress_for_s": 10})
        return
    if body is None:
        ctx.unsure("body too large to store; re-run with the recorded seed (head=%r)" % case.get("body_head"))
        return
    if str(cfg[1]).startswith("http"):
        ctx.unsure("HTTP witness: replayed in-process")
        cfg = (cfg[0], "default", True)
    fx = dm.Fixture(dm.std_reg(cfg[1], use_jsonclass=cfg[2]), version=cfg[0], use_jsonclass=cfg[2])
    check_body(ctx, fx, cfg, body, case.get("bclass", "replay"))
