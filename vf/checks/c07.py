"""
C07 - Objects survive dump/load wherever they occur, for every supported class shape.
"""

import collections
import decimal
import enum
import json

from vf import classgen, gen, oracle
from vf import dispatchmon as dm
from vf.peers import LoopbackTransport
from vf.probes import Spec

LEVEL = "exploration"
SHARDS = {"quick": 8, "thorough": 16}
TIMEOUT = {"quick": 240, "thorough": 1800}
RULE = ("classes = generated with type(): 0-5 own fields per class from public / _protected / __name-mangled names, "
        "__dict__ or __slots__ per class, inheritance depth 0-3 (mixed chains), serialize-method classes with list or "
        "dict constructor arguments plus plain attributes, enum.Enum classes (non-primitive-derived) and Decimals; named "
        "by module path (synthetic modules in sys.modules) or locally (__main__, registered in Config.classes); "
        "instances = every field assigned a supported value (primitives, list/tuple/set/frozenset/dict, other "
        "generated beans, enum members, Decimals; depth <= 3); positions = top, list item, tuple item, dict value, "
        "nested containers, fields of other beans; paths = direct dump/load (with and without the JSON text step), RPC "
        "parameter and RPC result through ServerProxy <-> dispatcher, versions 1.0 and 2.0. distinct = distinct (class "
        "shape description, instance canonical form, position, path); non-trivial = the value holds at least one bean / "
        "enum / Decimal and the reloaded object was compared field by field.")
ASSUMPTIONS = [
    "all slots are assigned; field names avoid the serialisation hook names",
    "serialize-method classes carry plain JSON values (the method's result is emitted verbatim by design)",
    "inside sets, members are primitives, enum members, Decimals or beans (compared as bags)",
    "enumerations derived from a primitive type are excluded, as the property says",
]
TECHNIQUE = "generated class shapes + reflective field-by-field round-trip oracle over direct and RPC paths (runtime monitoring)"
LEVEL_TEXT = ("Hundreds to thousands of generated class definitions are instantiated, dumped and reloaded by the real "
              "jsonclass / ServerProxy / dispatcher code in every position and naming mode; the oracle walks the "
              "GENERATED field list (not what the library found) and compares class identity and typed field values "
              "up to the documented container normalisation.")
LEVEL_NOTE = "Trusted: classgen.same (structural comparison), the class generator; loopback transport instead of sockets (sockets are C01's)."


class World(object):
    """A set of generated classes, a Config knowing the local ones, and an RPC loop."""

    def __init__(self, rng, version):
        import jsonrpclib
        import jsonrpclib.config
        self.rng = rng
        self.version = version
        self.shapes = []
        self.ancestors = []
        self.by_cls = {}
        self.enums = []
        classgen.gen_shape.hidden_locals = True     # (C07 only: local classes that no module path can name)
        for _ in range(rng.randint(2, 4)):
            self.add(classgen.gen_shape(rng))
        if rng.random() < 0.7:
            self.add(classgen.gen_shape(rng, serialize=True))
        self.cfg = jsonrpclib.config.Config(version=version)
        for local in (True, False):
            if rng.random() < 0.6:
                cls, mod = classgen.gen_enum(rng, local)
                self.enums.append(cls)
                if local:
                    self.cfg.classes.add(cls)
        self.aliased = set()
        for s in self.shapes:
            for link in s.chain():
                if link.local:
                    if rng.random() < 0.25:
                        # registered under a custom name only ("name: custom name used in the __jsonclass__ attribute")
                        self.cfg.classes.add(link.cls, rng.choice(["Alias_", "app.models."]) + link.cls.__name__)
                        self.aliased.add(link.cls)
                        if rng.random() < 0.5:
                            # ... while ANOTHER local class (an older generation, a factory-made twin) is registered
                            # under the very name this class carries
                            twin = type(link.cls.__name__, (object,), {"__module__": "__main__", "twin_marker": True})
                            self.cfg.classes.add(twin)
                    else:
                        if rng.random() < 0.3:
                            # the name was registered before, for an older generation of the class (a reloaded plug-in,
                            # a long-lived Config): registering again replaces it
                            old = type(link.cls.__name__, (object,), {"__module__": "__main__", "old_generation": True})
                            self.cfg.classes.add(old)
                            self.reregistered = getattr(self, "reregistered", 0) + 1
                        self.cfg.classes.add(link.cls)
        # RPC loop
        self.planned = collections.deque()
        reg = oracle.RegModel({"take": Spec("take", "*args, **kwargs", ("planned", self.planned))}, None, "default")
        self.fx = dm.Fixture(reg, version=version, config=self.cfg)
        self.transport = LoopbackTransport(self.fx)
        self.proxy = jsonrpclib.ServerProxy("http://loop/", transport=self.transport, version=version, config=self.cfg)

    def http(self):
        import jsonrpclib
        from vf import servers
        if getattr(self, "srv", None) is None:
            self.srv = servers.Srv("simple", "tcp", self.fx)
            self.srv.start()
            self.http_proxy = jsonrpclib.ServerProxy(self.srv.url, version=self.version, config=self.cfg)
        return self.http_proxy

    def close(self):
        if getattr(self, "srv", None) is not None:
            try:
                self.http_proxy("close")()
            except Exception:  # noqa
                pass
            self.srv.stop()
            self.srv = None

    def add(self, shape):
        shape.build()
        self.shapes.append(shape)
        for link in shape.chain():
            self.by_cls[link.cls] = link
            if link is not shape:
                # ancestors are classes of their own: they get instances too (after and before their descendants)
                self.ancestors.append(link)

    def fields_of(self, obj):
        s = self.by_cls.get(type(obj))
        if s is None:
            return None
        return [a for _, a in s.all_fields()]

    # -- values
    def plain(self, depth):
        rng = self.rng
        r = rng.random()
        if depth <= 0 or r < 0.5:
            return gen.rand_prim(rng)
        if r < 0.7:
            return [self.plain(depth - 1) for _ in range(rng.randint(0, 3))]
        return {gen.rand_key(rng): self.plain(depth - 1) for _ in range(rng.randint(0, 3))}

    def value(self, depth):
        rng = self.rng
        r = rng.random()
        if depth <= 0 or r < 0.35:
            return gen.rand_prim(rng)
        if r < 0.45:
            return [self.value(depth - 1) for _ in range(rng.randint(0, 3))]
        if r < 0.52:
            return tuple(self.value(depth - 1) for _ in range(rng.randint(0, 3)))
        if r < 0.6:
            return {gen.rand_key(rng): self.value(depth - 1) for _ in range(rng.randint(0, 3))}
        if r < 0.67:
            members = [self.hashable(depth - 1) for _ in range(rng.randint(0, 3))]
            return set(members) if rng.random() < 0.5 else frozenset(members)
        if r < 0.74 and self.enums:
            return rng.choice(list(rng.choice(self.enums)))
        if r < 0.8:
            return decimal.Decimal(rng.choice(classgen.DECIMALS))
        return self.instance(rng.choice(self.shapes + self.ancestors), depth - 1)

    def hashable(self, depth):
        rng = self.rng
        r = rng.random()
        if r < 0.6 or depth <= 0:
            return gen.rand_prim(rng)
        if r < 0.75 and self.enums:
            return rng.choice(list(rng.choice(self.enums)))
        if r < 0.85:
            return decimal.Decimal(rng.choice(classgen.DECIMALS))
        # set members are compared as bags of canonical forms: keep their own fields primitive
        return self.instance(rng.choice([s for s in self.shapes if not s.kind.startswith("serialize")] or self.shapes), 0)

    def instance(self, shape, depth):
        cls = shape.cls
        names = [a for _, a in shape.all_fields()]
        if shape.kind.startswith("serialize"):
            vals = [self.plain(min(depth, 2)) for _ in names]
            obj = cls(*vals[:2]) if shape.kind == "serialize-list" else cls(**dict(zip(names[:2], vals[:2])))
            for n, v in zip(names[2:], vals[2:]):
                setattr(obj, n, v)
            return obj
        obj = cls()
        for n in names:
            setattr(obj, n, self.field_value(depth))
        return obj

    def field_value(self, depth):
        """A supported field value: a primitive or a container (whose members may be beans, enum members,
        Decimals); an object held DIRECTLY in a field is not a supported value (it is omitted by design, see C20)."""
        v = self.value(depth)
        if classgen.is_bean(v) or isinstance(v, (enum.Enum, decimal.Decimal)):
            return self.rng.choice([[v], (v, 1), {"k": v}])
        return v


def features(world, x, acc=None):
    """Which class-shape features a value exercises (for mechanism keys and coverage cells)."""
    acc = set() if acc is None else acc
    if isinstance(x, (list, tuple, set, frozenset)):
        for v in x:
            features(world, v, acc)
    elif isinstance(x, dict):
        for v in x.values():
            features(world, v, acc)
    elif isinstance(x, enum.Enum):
        acc.add("enum")
        if not isinstance(x.value, (str, int, float, bool, type(None))):
            acc.add("enum-nonscalar")
    elif isinstance(x, decimal.Decimal):
        acc.add("decimal")
    elif classgen.is_bean(x):
        s = world.by_cls.get(type(x))
        if s is not None:
            acc.add("local" if s.local else "qualified")
            if type(x) in getattr(world, "aliased", ()):
                acc.add("alias")
            for link in s.chain():
                acc.add(link.kind)
                if any(f.startswith("__") and not f.endswith("__") for f in link.fields):
                    acc.add("mangled-" + ("slot" if link.kind == "slots" else "attr"))
            if len(s.chain()) > 1:
                acc.add("inherit%d" % (len(s.chain()) - 1))
            for n in world.fields_of(x) or []:
                try:
                    features(world, getattr(x, n), acc)
                except AttributeError:
                    pass
    return acc


def mech(feats, position):
    """Mechanism tag from the features a failing value exercises."""
    tags = []
    if "enum-nonscalar" in feats:
        return "enum-member-whose-value-is-not-a-JSON-scalar"
    if "mangled-slot" in feats:
        tags.append("mangled-slot")
    if "alias" in feats:
        tags.append("local-registered-under-an-alias")
    elif "local" in feats:
        tags.append("local" + ("-nested" if position != "top" else "-top"))
    if not tags:
        for t in ("serialize-list", "serialize-dict", "slots", "enum", "decimal", "dict"):
            if t in feats:
                tags.append(t)
                break
    return "+".join(tags) or "plain"


def wrap(rng, x, position):
    if position == "top":
        return x
    if position == "list":
        return [1, x, "s"]
    if position == "tuple":
        return (x, None)
    if position == "dict":
        return {"k": x, "other": [0]}
    if position == "deep":
        return {"a": [{"b": (x,)}], "c": 1}
    return x


POSITIONS = ["top", "list", "tuple", "dict", "deep", "field"]


def check_value(ctx, world, x, position, path, desc):
    import jsonrpclib.jsonclass as jc
    import jsonrpclib.jsonrpc as jr
    feats = features(world, x)
    nontrivial = bool(feats)
    canon = classgen.canon(x, world.fields_of)
    ctx.case((desc, canon, position, path), nontrivial=nontrivial)
    ctx.count("path:" + path)
    for f in feats:
        ctx.cell(path, f)
    ctx.cell("position", position)
    case = {"path": path, "position": position, "value": canon[:1500], "classes": desc, "version": world.version}
    tag = mech(feats, position)
    if path.startswith("direct"):
        try:
            d = jc.dump(x, config=world.cfg)
        except Exception as ex:
            ctx.violate("dump-raised-%s:%s" % (type(ex).__name__, tag), case, {"raised": ex})
            return
        if path == "direct-text":
            try:
                d = jr.jloads(jr.jdumps(d))
            except Exception as ex:
                ctx.violate("dump-not-json-%s:%s" % (type(ex).__name__, tag), case, {"raised": ex})
                return
        try:
            back = jc.load(d, world.cfg.classes)
        except Exception as ex:
            ctx.violate("load-raised-%s:%s" % (type(ex).__name__, tag), case, {"raised": ex, "dump": str(d)[:600]})
            return
    else:
        world.planned.clear()
        mark = world.fx.log.mark()
        try:
            if path == "rpc-param":
                world.planned.append(None)
                world.proxy.take(x, 1)
                ran = world.fx.log.since(mark)
                if len(ran) != 1:
                    ctx.violate("rpc-param-not-delivered:%s" % tag, case, {"executions": len(ran)})
                    return
                back = ran[0][1]["args"][0]
            elif path == "rpc-kwparam":
                world.planned.append(None)
                world.proxy.take(v=x)
                ran = world.fx.log.since(mark)
                if len(ran) != 1:
                    ctx.violate("rpc-param-not-delivered:%s" % tag, case, {"executions": len(ran)})
                    return
                back = ran[0][1]["kwargs"]["v"]
            elif path == "rpc-http-result":
                # through a real HTTP server and the real transport (a reply of several read chunks)
                world.planned.append(x)
                back = world.http().take()
            else:
                world.planned.append(x)
                back = world.proxy.take()
        except Exception as ex:
            ctx.violate("%s-raised-%s:%s" % (path, type(ex).__name__, tag), case, {"raised": ex})
            return
    ctx.count("judged:roundtrip")
    diff = classgen.same(x, back, world.fields_of)
    if diff:
        kind = diff.split(":")[-1].split("(")[0]
        ctx.violate("%s-mismatch-%s:%s" % (path.split("-")[0], kind, tag), case,
                    {"difference_at": diff, "reloaded": classgen.canon(back, world.fields_of)[:800]})


def run(ctx):
    rng = ctx.rng
    paths = ["direct", "direct-text", "rpc-param", "rpc-kwparam", "rpc-result"]
    nworlds = ctx.pick(40, 400)
    for w in range(nworlds):
        if ctx.time_left() < 10:
            ctx.unsure("time budget exhausted after %d class sets" % w)
            break
        version = 2.0 if w % 2 == 0 else 1.0
        world = World(rng, version)
        desc = json.dumps([s.describe() for s in world.shapes], sort_keys=True)
        ctx.count("class-sets")
        ctx.count("local-classes-registered-over-an-older-registration", getattr(world, "reregistered", 0))
        ctx.count("classes-generated", sum(len(s.chain()) for s in world.shapes) + len(world.enums))
        if w == 0:
            ctx.sample({"classes": [s.describe() for s in world.shapes], "version": version})
        order = world.shapes + world.ancestors
        rng.shuffle(order)
        for shape in order:
            for rep in range(ctx.pick(3, 10) if shape in world.shapes else 2):
                obj = world.instance(shape, rng.randint(0, 3))
                for position in POSITIONS[:5]:
                    x = wrap(rng, obj, position)
                    for path in paths:
                        if position != "top" and rng.random() < 0.5:
                            continue
                        check_value(ctx, world, x, position, path, desc)
        # objects travelling as results next to a long text, over real HTTP: the reply spans several read chunks of the
        # transport and blanks fall on their boundaries
        if w % 4 == 0:
            for shape in order[:2]:
                obj = world.instance(shape, 1)
                words = [rng.choice(["lorem", "ipsum", "dolor", "sit", "amet", "a", "été", "x" * rng.randint(1, 9)])
                         for _ in range(rng.randint(600, 1200))]
                check_value(ctx, world, {"prose": " ".join(words), "pad": " " * rng.choice([1023, 1024, 2048, 3000]),
                                         "obj": obj}, "dict", "rpc-http-result", desc)
            world.close()
        # enum members and Decimals on their own and in containers
        for rep in range(ctx.pick(4, 12)):
            v = world.value(2)
            check_value(ctx, world, v, "top", rng.choice(paths), desc)
        for e in world.enums:
            for member in e:
                for position in ("top", "list", "dict"):
                    check_value(ctx, world, wrap(rng, member, position), position, rng.choice(paths), desc)
        for dstr in classgen.DECIMALS[:ctx.pick(3, 8)]:
            check_value(ctx, world, wrap(rng, decimal.Decimal(dstr), rng.choice(POSITIONS[:5])), "any",
                        rng.choice(paths), desc)
    classgen.cleanup_modules()


def finalize(m, tier):
    c = m["counters"]
    out = []
    for k, lo in (("judged:roundtrip", 3000), ("path:direct", 500), ("path:rpc-param", 500), ("path:rpc-result", 500),
                  ("class-sets", 100), ("classes-generated", 500)):
        if c.get(k, 0) < lo:
            out.append("monitor counter %s too low (%d < %d)" % (k, c.get(k, 0), lo))
    need = ["direct/slots", "direct/dict", "direct/local", "direct/qualified", "direct/enum", "direct/decimal",
            "direct/mangled-attr", "direct/mangled-slot", "direct/serialize-list", "direct/serialize-dict",
            "rpc-param/local", "rpc-result/local", "rpc-param/slots", "direct/inherit3"]
    for cell in need:
        if cell not in m["cells"]:
            out.append("feature cell %s never exercised" % cell)
    return out


def replay(ctx, case):
    ctx.unsure("generated classes are rebuilt from the seed: re-run ./check C07 with the recorded seed and tier "
               "(witness classes: %s)" % str(case.get("classes"))[:300])
