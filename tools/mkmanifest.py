#!/venv/bin/python -B
"""Regenerates MANIFEST.json from the check modules' own metadata."""
import importlib
import json
import os
import sys

VERIF = os.path.dirname(os.path.dirname(os.path.abspath(__file__)))
sys.path.insert(0, VERIF)
sys.path.insert(0, os.environ.get("VERIF_REPO", "/repo"))
sys.dont_write_bytecode = True

props = [json.loads(l) for l in open(os.path.join(VERIF, "properties.jsonl"))]
checks = []
na = []
for p in props:
    pid = p["id"]
    path = os.path.join(VERIF, "vf", "checks", pid.lower() + ".py")
    if not os.path.exists(path):
        na.append({"property_id": pid,
                   "reason": "not claimed yet: the runtime monitor for it (DESIGN.md section 4) is not built in this commit"})
        continue
    mod = importlib.import_module("vf.checks." + pid.lower())
    checks.append({
        "property_id": pid,
        "quick_cmd": "./check %s --tier quick" % pid,
        "thorough_cmd": "./check %s --tier thorough" % pid,
        "evidence_file": "/verif/evidence/%s.json" % pid,
        "replay_cmd_template": "./check %s --replay {path}" % pid,
        "engine": "vf",
        "level_claimed": {"category": mod.LEVEL, "text": mod.LEVEL_TEXT,
                          "design_ref": "DESIGN.md section 4, " + pid},
        "level_note": mod.LEVEL_NOTE,
        "technique": mod.TECHNIQUE,
    })

manifest = {
    "version": 1,
    "setup_cmd": "./check --setup",
    "hooks": {
        "guard": "JSONRPCLIB_VERIF",
        "enable": "no source hooks: the checks set JSONRPCLIB_VERIF=1 for their shard processes and attach every monitor from outside (API-boundary wrappers, sys.monitoring LINE events on jsonrpclib code objects, audit hooks, a Queue subclass injected through the pool module's `queue` name); /repo is imported fresh from its working tree by every shard (PYTHONPATH=$VERIF_REPO, default /repo)",
        "baseline_off_cmd": "cd /repo && /venv/bin/python -m pytest -ra -q -p no:cacheprovider --timeout=900 --continue-on-collection-errors tests",
        "source_commits": [],
        "add_only": True,
    },
    "engines": [{
        "name": "vf", "path": "/verif/vf",
        "serves_properties": [c["property_id"] for c in checks],
        "kind_free_text": "runtime monitoring: generated/hostile/stress workloads against the real code, recording monitors + offline history checkers + reference-model oracles, schedule perturbation by sys.monitoring line-level delay injection, scripted raw-socket fault peers",
    }],
    "checks": checks,
    "notes": "Exit codes: 0 held on everything explored, 1 VIOLATION (replay file named), 2 INCONCLUSIVE (monitor saw too little / shard died). Known findings: /verif/known_findings.txt (never written at run time). Fixes to /repo are unguarded 'fix:' commits listed there as 'fixed:' lines.",
    "not_applicable": na,
}
with open(os.path.join(VERIF, "MANIFEST.json"), "w") as fh:
    json.dump(manifest, fh, indent=1)
    fh.write("\n")
print("claimed:", [c["property_id"] for c in checks])
print("not claimed:", [n["property_id"] for n in na])
