"""Validates MANIFEST.json and every evidence file against the given schemas (run with python3-vt)."""
import glob
import json
import sys
import jsonschema

ok = True
m = json.load(open("/verif/MANIFEST.json"))
jsonschema.validate(m, json.load(open("/root/.vp/MANIFEST.schema.json")))
es = json.load(open("/root/.vp/EVIDENCE.schema.json"))
claimed = {c["property_id"]: c for c in m["checks"]}
for pid, c in sorted(claimed.items()):
    try:
        ev = json.load(open(c["evidence_file"]))
        jsonschema.validate(ev, es)
        assert ev["level"] == c["level_claimed"]["category"], "level mismatch"
        print(pid, "ok", ev["tier"], ev["coverage"]["evaluations"], ev["coverage"]["distinct_nontrivial"], ev["wall_s"], ev.get("verdict"))
    except Exception as ex:  # noqa
        ok = False
        print(pid, "BAD", str(ex)[:300])
props = [json.loads(l)["id"] for l in open("/verif/properties.jsonl")]
na = {n["property_id"] for n in m.get("not_applicable", [])}
for p in props:
    if p not in claimed and p not in na:
        ok = False
        print(p, "neither claimed nor not_applicable")
sys.exit(0 if ok else 1)
